// C15 shim (endianness): real endianness::swap / convert over the real libs/core/src/endianness/reverse_mem.cpp
#include <fcppt/endianness/swap.hpp>
#include <fcppt/endianness/convert.hpp>
#include <fcppt/endianness/reverse_mem.hpp>
#include <bit>
#include <cstdint>
#include <cstring>
static_assert(std::endian::native == std::endian::little);
#define DEF(N, T, B) \
extern "C" B vf_swap_##N(B x){ T v; std::memcpy(&v, &x, sizeof v); v = fcppt::endianness::swap(v); B r; std::memcpy(&r, &v, sizeof r); return r; } \
extern "C" B vf_swap_swap_##N(B x){ T v; std::memcpy(&v, &x, sizeof v); v = fcppt::endianness::swap(fcppt::endianness::swap(v)); B r; std::memcpy(&r, &v, sizeof r); return r; } \
extern "C" void vf_convert_##N(B x, bool big, unsigned char *out){ T v; std::memcpy(&v, &x, sizeof v); T const c = fcppt::endianness::convert(v, big ? std::endian::big : std::endian::little); std::memcpy(out, &c, sizeof c); }
DEF(u8, std::uint8_t, std::uint8_t)
DEF(u16, std::uint16_t, std::uint16_t)
DEF(i16, std::int16_t, std::uint16_t)
DEF(u32, std::uint32_t, std::uint32_t)
DEF(i32, std::int32_t, std::uint32_t)
DEF(f32, float, std::uint32_t)
DEF(u64, std::uint64_t, std::uint64_t)
DEF(i64, std::int64_t, std::uint64_t)
DEF(f64, double, std::uint64_t)
extern "C" void vf_reverse_mem(unsigned char *data, std::size_t len){ fcppt::endianness::reverse_mem(data, len); }
