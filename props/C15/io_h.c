/* assumed contracts (executable stubs) for std::ostream::write / std::istream::read / basic_ios::fail over a ghost byte buffer */
static u8 g_buf[16]; static u64 g_wpos, g_rpos, g_avail; static _Bool g_fail; static unsigned c_write, c_read;
#ifdef VF_HAVE__ZNSo5writeEPKcl
_ZNSo5writeEPKcl_ret_t _ZNSo5writeEPKcl(_ZNSo5writeEPKcl_arg0_t s, _ZNSo5writeEPKcl_arg1_t p, u64 n){
  ++c_write; __CPROVER_assert(n <= 8 && g_wpos + n <= 16, "ostream::write stub: at most 8 bytes per call");
  for (u64 i = 0; i < 8; ++i) if (i < n) g_buf[g_wpos + i] = ((const u8 *)p)[i];
  g_wpos += n; return s; }
#endif
#ifdef VF_HAVE__ZNSi4readEPcl
_ZNSi4readEPcl_ret_t _ZNSi4readEPcl(_ZNSi4readEPcl_arg0_t s, _ZNSi4readEPcl_arg1_t p, u64 n){
  ++c_read; __CPROVER_assert(n <= 8, "istream::read stub: at most 8 bytes per call");
  if (g_fail) return s;
  u64 have = g_avail - g_rpos; u64 m = n <= have ? n : have;
  for (u64 i = 0; i < 8; ++i) if (i < m) ((u8 *)p)[i] = g_buf[g_rpos + i];
  g_rpos += m; if (m < n) g_fail = 1;                                      /* short read: eofbit | failbit */
  return s; }
#endif
#ifdef VF_HAVE__ZNKSt9basic_iosIcSt11char_traitsIcEE4failEv
_ZNKSt9basic_iosIcSt11char_traitsIcEE4failEv_ret_t _ZNKSt9basic_iosIcSt11char_traitsIcEE4failEv(_ZNKSt9basic_iosIcSt11char_traitsIcEE4failEv_arg0_t s){ return g_fail; }
#endif
#ifdef VF_HAVE__ZNKSt9basic_iosIcSt11char_traitsIcEEcvbEv
_ZNKSt9basic_iosIcSt11char_traitsIcEEcvbEv_ret_t _ZNKSt9basic_iosIcSt11char_traitsIcEEcvbEv(_ZNKSt9basic_iosIcSt11char_traitsIcEEcvbEv_arg0_t s){ return !g_fail; }
#endif
/* stream objects: raw storage with a fake vtable supplying the virtual-base offset (basic_ios follows the vptr [+ gcount]) */
#define OSTREAM u64 osbuf[64]; u64 ovt[4]; ovt[0] = 8; ovt[1] = ovt[2] = ovt[3] = 0; osbuf[0] = (u64)&ovt[3];
#define ISTREAM u64 isbuf[64]; u64 ivt[4]; ivt[0] = 16; ivt[1] = ivt[2] = ivt[3] = 0; isbuf[0] = (u64)&ivt[3];
#define IO_LEMMAS(N, T, W) \
void h_write_##N(void){ OSTREAM T x; _Bool big; big = big != 0; g_wpos = 0; c_write = 0; \
  vf_write_##N((void *)osbuf, x, big); \
  __CPROVER_assert(c_write == 1 && g_wpos == W / 8, "io::write hands exactly sizeof(T) bytes to the stream, in one call"); \
  for (unsigned i = 0; i < W / 8; ++i) \
    __CPROVER_assert(g_buf[i] == (u8)((u64)x >> (big ? (W - 8 - 8 * i) : 8 * i)), "written bytes are most-significant-first for big endian, least-significant-first for little endian"); \
  VF_PROBE(); } \
void h_roundtrip_##N(void){ OSTREAM ISTREAM T x, y; _Bool big; big = big != 0; g_wpos = 0; g_rpos = 0; g_fail = 0; \
  vf_write_##N((void *)osbuf, x, big); g_avail = g_wpos; \
  _Bool ok = vf_read_##N((void *)isbuf, big, &y); \
  __CPROVER_assert(ok && y == x, "io::read after io::write in the same byte order yields the value"); VF_PROBE(); } \
void h_short_read_##N(void){ ISTREAM T y; _Bool big; u64 have; big = big != 0; __CPROVER_assume(have < W / 8); g_rpos = 0; g_avail = have; g_fail = 0; \
  _Bool ok = vf_read_##N((void *)isbuf, big, &y); \
  __CPROVER_assert(!ok, "a short read reports failure (empty optional), never a truncated value"); VF_PROBE(); }
IO_LEMMAS(u16, u16, 16)
IO_LEMMAS(u32, u32, 32)
IO_LEMMAS(i32, u32, 32)
IO_LEMMAS(u64, u64, 64)
