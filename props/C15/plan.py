"""C15 - textual and binary encodings round-trip losslessly (the parts within reach: byte order, binary io, enum strings)."""
from vf.plan import Plan

TYPES = [('u8', 8), ('u16', 16), ('i16', 16), ('u32', 32), ('i32', 32), ('f32', 32), ('u64', 64), ('i64', 64), ('f64', 64)]
IOS = 'assumed contract (executable stub over a ghost byte buffer): std::ostream::write, std::istream::read, std::basic_ios::fail / operator bool (machine code in libstdc++)'


def bswap(x, w):
    return '(' + ' | '.join('((((u64)%s >> %d) & 0xff) << %d)' % (x, 8 * i, w - 8 - 8 * i) for i in range(w // 8)) + ')'


def make(tier):
    P = Plan('C15', level='proof', design_ref='DESIGN.md section 5 C15')
    P.assumptions.append(IOS)
    P.not_decided += ['output_to_string / extract_from_string, stream output/input of enums, vectors, dims (iostream formatting and extraction: machine code in libstdc++)',
                      'widen / narrow / to_std_wstring / from_std_wstring / codecvt (locale facets: machine code in libstdc++; fcppt::impl::codecvt run against an abstract facet model did not close: experiments/C15_codecvt; the silent truncation of narrow found there natively is repaired, /repo 2a5eceb)', 'floating-point text round trips']
    spec = ''
    jobs = []
    for n, w in TYPES:
        B = 'u%d' % w
        spec += 'function vf_swap_%s\n  __CPROVER_assigns()\n  __CPROVER_ensures((u64)__CPROVER_return_value == %s)\n' % (n, bswap('x', w))
        jobs.append(('vf_swap_%s' % n, 'W', 'endianness::swap reverses the bytes of the object representation'))
        spec += 'function vf_swap_swap_%s\n  __CPROVER_assigns()\n  __CPROVER_ensures(__CPROVER_return_value == x)\n' % n
        jobs.append(('vf_swap_swap_%s' % n, 'W', 'endianness::swap twice is the identity (bit-identical)'))
        spec += 'function vf_convert_%s\n  __CPROVER_requires(__CPROVER_is_fresh(out, %d) && (big == 0 || big == 1))\n  __CPROVER_assigns(__CPROVER_object_whole(out))\n' % (n, w // 8)
        spec += '  __CPROVER_ensures(%s)\n' % ' && '.join('out[%d] == (u8)((u64)x >> (big ? %d : %d))' % (i, w - 8 - 8 * i, 8 * i) for i in range(w // 8))
        jobs.append(('vf_convert_%s' % n, 'W', 'endianness::convert(x, big) stores most-significant byte first, convert(x, little) least-significant first'))
    P.generated['endian.spec'] = spec
    u = P.unit('endian', 'endian.cpp', specs=['endian.spec'], srcs=['libs/core/src/endianness/reverse_mem.cpp'], inline=True)
    for f, cls, what in jobs:
        u.contract(f, cls=cls, unwind=10, bound='reverse_mem loop bounded by sizeof(T)/2 <= 4 iterations, unwinding assertion on', backends=['sat', 'cvc5'], what=what, timeout=600)
    # binary io
    u2 = P.unit('io', 'io.cpp', harness=['io_h.c'], srcs=['libs/core/src/endianness/reverse_mem.cpp'], sroa=True)   # -O0: the std stream members stay external calls (stubbed)
    for n in ('u16', 'u32', 'i32', 'u64'):
        for h, what in (('h_write', 'io::write emits exactly the bytes of the value in the requested byte order (big: most significant first)'),
                        ('h_roundtrip', 'io::read(io::write(x)) == x for both byte orders'),
                        ('h_short_read', 'a short read yields an empty optional')):
            u2.lemma('%s_%s' % (h, n), cls='W', unwind=10, bound='byte loops bounded by sizeof(T) <= 8', backends=['sat', 'cvc5'], native=False, what=what, assumed=[IOS], timeout=600)
    # enum strings
    spec = 'function vf_enum_roundtrip\n  __CPROVER_requires(__CPROVER_is_fresh(out, 4) && e < 5)\n  __CPROVER_assigns(*out)\n  __CPROVER_ensures(__CPROVER_return_value == 1 && *out == e)\n'
    names = ['red', 'green', 'blue', 'dark_red', 're']

    def matches(nm, idx):
        if len(nm) > 3:
            return '0'
        return '(len == %d && %s)' % (len(nm), ' && '.join("c%d == '%s'" % (i, ch) for i, ch in enumerate(nm)))
    spec += 'function vf_enum_from_chars\n  __CPROVER_requires(__CPROVER_is_fresh(out, 4) && len <= 3)\n  __CPROVER_assigns(*out)\n'
    spec += '  __CPROVER_ensures(__CPROVER_return_value == (%s || %s))\n' % (matches('red', 0), matches('re', 4))
    spec += '  __CPROVER_ensures(VF_IMP(%s, *out == 0) && VF_IMP(%s, *out == 4))\n' % (matches('red', 0), matches('re', 4))
    P.generated['enum.spec'] = spec
    u3 = P.unit('enum', 'enum.cpp', specs=['enum.spec'], inline=True)
    u3.contract('vf_enum_roundtrip', cls='W', unwind=12, bound='enum with 5 enumerators, names of at most 8 characters (loops bounded by these)', backends=['sat', 'cvc5'], timeout=900,
                what='from_string(to_string(e)) == e for every enumerator')
    u3.contract('vf_enum_from_chars', cls='B', unwind=12, bound='input strings of at most 3 characters (all of them)', backends=['sat', 'cvc5'], timeout=900,
                what='from_string yields an enumerator exactly for its exact name (a prefix or extension of a name is rejected: "re" vs "red")')
    return P
