// C15 shim (enum strings): to_string / from_string round trip for a 5-enumerator test enum
#include <fcppt/enum/from_string.hpp>
#include <fcppt/enum/to_string.hpp>
#include <fcppt/enum/to_string_case.hpp>
#include <fcppt/enum/to_string_impl_fwd.hpp>
#include <fcppt/assert/unreachable.hpp>
#include <string_view>
enum class col { red, green, blue, dark_red, re, fcppt_maximum = re };
namespace fcppt::enum_ {
template <> struct to_string_impl<col> {
  static std::string_view get(col const _val) {
#define NAME_CASE(val) FCPPT_ENUM_TO_STRING_CASE(col, val)
    switch (_val) { NAME_CASE(red); NAME_CASE(green); NAME_CASE(blue); NAME_CASE(dark_red); NAME_CASE(re); }
    FCPPT_ASSERT_UNREACHABLE;
#undef NAME_CASE
  }
};
}
extern "C" bool vf_enum_roundtrip(unsigned e, unsigned *out){ auto const r = fcppt::enum_::from_string<col>(fcppt::enum_::to_string(static_cast<col>(e))); if (r.has_value()) { *out = static_cast<unsigned>(r.get_unsafe()); return true; } return false; }
extern "C" bool vf_enum_from_chars(char c0, char c1, char c2, unsigned len, unsigned *out){ char const buf[3] = {c0, c1, c2}; auto const r = fcppt::enum_::from_string<col>(std::string_view{buf, len}); if (r.has_value()) { *out = static_cast<unsigned>(r.get_unsafe()); return true; } return false; }
