// C15 shim (binary io): real io::write / io::read over std::ostream::write / std::istream::read stubbed in the harness
#include <fcppt/io/read.hpp>
#include <fcppt/io/write.hpp>
#include <bit>
#include <cstdint>
#include <istream>
#include <ostream>
#define DEF(N, T) \
extern "C" void vf_write_##N(std::ostream *os, T x, bool big){ fcppt::io::write(*os, x, big ? std::endian::big : std::endian::little); } \
extern "C" bool vf_read_##N(std::istream *is, bool big, T *out){ auto const r = fcppt::io::read<T>(*is, big ? std::endian::big : std::endian::little); if (r.has_value()) { *out = r.get_unsafe(); return true; } return false; }
DEF(u16, std::uint16_t)
DEF(u32, std::uint32_t)
DEF(i32, std::int32_t)
DEF(u64, std::uint64_t)
