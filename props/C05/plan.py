"""C05 - generic operations conserve values: rvalues are moved (never copied), lvalues are untouched, no read after move."""
from vf.plan import Plan

G = '__CPROVER_object_whole(n_copy), __CPROVER_object_whole(n_move), c_copy, c_move, c_readmoved, m_copy, m_move, m_readmoved, __CPROVER_object_whole(m_ncopy), __CPROVER_object_whole(m_nmove)'
NOCOPY = 'c_copy == __CPROVER_old(c_copy)'
NOMOVE = 'c_move == m_move'   # no move since the arguments were set up (vf_mark)
NORM = 'c_readmoved == __CPROVER_old(c_readmoved)'
ID = lambda *ids: ' && '.join('%s < 8' % i for i in ids) + (' && ' + ' && '.join('%s != %s' % (a, b) for k, a in enumerate(ids) for b in ids[k + 1:]) if len(ids) > 1 else '')
B = lambda *bs: ' && '.join('(%s == 0 || %s == 1)' % (b, b) for b in bs)
C = {}
C['vf_mir_r'] = ([ID('a')], [], ['__CPROVER_return_value == a', NOCOPY, NORM], 'move_if_rvalue<T>(x) moves')
C['vf_mir_l'] = ([ID('a'), '__CPROVER_is_fresh(st, 4)'], ['*st'], ['__CPROVER_return_value == a', '*st == 0', NOMOVE, NORM], 'move_if_rvalue<T&>(x) copies and leaves x intact')
for f, args, bools, res, what in (
        ('vf_omap_r', ('a',), ('h',), '(h ? a : (u32)-1)', 'optional::map on an rvalue'),
        ('vf_obind_r', ('a',), ('h',), '(h ? a : (u32)-1)', 'optional::bind on an rvalue'),
        ('vf_ojoin_r', ('a',), ('h1', 'h2'), '((h1 && h2) ? a : (u32)-1)', 'optional::join on an rvalue'),
        ('vf_ofilter_r', ('a',), ('h', 'keep'), '((h && keep) ? a : (u32)-1)', 'optional::filter on an rvalue'),
        ('vf_oalt_r', ('a', 'b'), ('h', 'hd'), '(h ? a : (hd ? b : (u32)-1))', 'optional::alternative on an rvalue'),
        ('vf_ocombine_rr', ('a', 'b'), ('h1', 'h2'), '(h1 ? a : (h2 ? b : (u32)-1))', 'optional::combine on two rvalues'),
        ('vf_ofrom_r', ('a', 'b'), ('h',), '(h ? a : b)', 'optional::from on an rvalue'),
        ('vf_omaybe_r', ('a',), ('h',), '(h ? a : (u32)-1)', 'optional::maybe on an rvalue'),
        ('vf_oapply_r', ('a', 'b'), ('h1', 'h2'), '((h1 && h2) ? a : (u32)-1)', 'optional::apply on rvalues'),
        ('vf_ematch_r', ('fa', 'su'), ('s',), '(s ? su : fa)', 'either::match on an rvalue'),
        ('vf_esucc_opt_r', ('fa', 'su'), ('s',), '(s ? su : (u32)-1)', 'either::success_opt on an rvalue'),
        ('vf_efail_opt_r', ('fa', 'su'), ('s',), '(s ? (u32)-1 : fa)', 'either::failure_opt on an rvalue'),
        ('vf_vmatch_r', ('a',), ('first',), '(first ? a : b)', 'variant::match on an rvalue'),
        ('vf_vtoopt_r', ('a',), ('first',), '(first ? a : (u32)-1)', 'variant::to_optional on an rvalue')):
    C[f] = ([ID(*args), B(*bools)], [], ['__CPROVER_return_value == %s' % res, NOCOPY, NORM], what + ': the held element is moved, never copied; no read of a moved-from object; the element arrives in the result')
for f, args, bools, res, st, what in (
        ('vf_omap_l', ('a',), ('h',), '(h ? a + 1000 : (u32)-1)', '*st == (h ? 1 : 0)', 'optional::map on an lvalue'),
        ('vf_obind_l', ('a',), ('h',), '(h ? a : (u32)-1)', '*st == (h ? 1 : 0)', 'optional::bind on an lvalue'),
        ('vf_ojoin_l', ('a',), ('h1', 'h2'), '((h1 && h2) ? a : (u32)-1)', '*st == ((h1 && h2) ? 1 : 0)', 'optional::join on an lvalue'),
        ('vf_ofilter_l', ('a',), ('h', 'keep'), '((h && keep) ? a : (u32)-1)', '*st == (h ? 1 : 0)', 'optional::filter on an lvalue'),
        ('vf_oalt_l', ('a', 'b'), ('h', 'hd'), '(h ? a : (hd ? b : (u32)-1))', '*st == (h ? 1 : 0)', 'optional::alternative on an lvalue'),
        ('vf_ofrom_l', ('a', 'b'), ('h',), '(h ? a : b)', '*st == (h ? 1 : 0)', 'optional::from on an lvalue')):
    C[f] = ([ID(*args), B(*bools), '__CPROVER_is_fresh(st, 4)'], ['*st'], ['__CPROVER_return_value == %s' % res, st, 'n_move[a] == m_nmove[a]', NORM], what + ': the argument is left intact (not moved from)')
C['vf_ocombine_ll'] = ([ID('a', 'b'), B('h1', 'h2'), '__CPROVER_is_fresh(s1, 4) && __CPROVER_is_fresh(s2, 4)'], ['*s1', '*s2'],
                       ['__CPROVER_return_value == (h1 ? a : (h2 ? b : (u32)-1))', '*s1 == (h1 ? 1 : 0) && *s2 == (h2 ? 1 : 0)', NORM], 'optional::combine on two lvalues: both intact')
C['vf_ocombine_rl'] = ([ID('a', 'b'), B('h1', 'h2'), '__CPROVER_is_fresh(s2, 4)'], ['*s2'],
                       ['__CPROVER_return_value == (h1 ? a : (h2 ? b : (u32)-1))', '*s2 == (h2 ? 1 : 0)', 'n_move[b] == m_nmove[b]', 'n_copy[a] == m_ncopy[a]', NORM],
                       'optional::combine(rvalue, lvalue): the lvalue is intact (also when only it is set), the rvalue is never copied')
C['vf_ocombine_lr'] = ([ID('a', 'b'), B('h1', 'h2'), '__CPROVER_is_fresh(s1, 4)'], ['*s1'],
                       ['__CPROVER_return_value == (h1 ? (h2 ? b : a) : (h2 ? b : (u32)-1))', '*s1 == (h1 ? 1 : 0)', 'n_move[a] == m_nmove[a]', 'n_copy[b] == m_ncopy[b]', NORM],
                       'optional::combine(lvalue, rvalue): the lvalue is intact, the rvalue is never copied (also when only it is set)')
for f, what, res in (('vf_emap_r', 'either::map on an rvalue', '(s ? su : fa)'), ('vf_ebind_r', 'either::bind on an rvalue', '(s ? su : fa)'), ('vf_emapf_r', 'either::map_failure on an rvalue', '(s ? su : fa)')):
    C[f] = ([ID('fa', 'su'), B('s'), '__CPROVER_is_fresh(id, 4)'], ['*id'], ['__CPROVER_return_value == s && *id == %s' % res, NOCOPY, NORM], what + ': success AND failure are moved through, never copied')
for f, what in (('vf_emap_l', 'either::map on an lvalue'), ('vf_ebind_l', 'either::bind on an lvalue')):
    C[f] = ([ID('fa', 'su'), B('s'), '__CPROVER_is_fresh(id, 4) && __CPROVER_is_fresh(st, 4)'], ['*id', '*st'], ['__CPROVER_return_value == s && *id == (s ? su + 1000 : fa)', '*st == 0', NORM], what + ': the argument is left intact')
C['vf_efrom_opt_r'] = ([ID('a'), B('h'), '__CPROVER_is_fresh(id, 4)'], ['*id'], ['__CPROVER_return_value == h && *id == (h ? a : 77)', NOCOPY, NORM], 'either::from_optional on an rvalue')
C['vf_amap_r'] = ([ID('a', 'b'), '__CPROVER_is_fresh(out, 8)'], ['__CPROVER_object_whole(out)'], ['out[0] == a && out[1] == b', NOCOPY, NORM], 'array::map on an rvalue array: every element moved exactly into its place')
C['vf_amap_l'] = ([ID('a', 'b'), '__CPROVER_is_fresh(out, 8) && __CPROVER_is_fresh(st, 8)'], ['__CPROVER_object_whole(out)', '__CPROVER_object_whole(st)'], ['out[0] == a + 1000 && out[1] == b + 1000 && st[0] == 0 && st[1] == 0', NOMOVE, NORM], 'array::map on an lvalue array: source intact')
C['vf_tmap_r'] = ([ID('a', 'b'), '__CPROVER_is_fresh(out, 8)'], ['__CPROVER_object_whole(out)'], ['out[0] == a && out[1] == b', NOCOPY, NORM], 'tuple::map on an rvalue tuple')


def make(tier):
    P = Plan('C05', level='proof', design_ref='DESIGN.md section 5 C05')
    P.not_decided += ['range algorithms and containers on the heap: algorithm::map / fold / fold_break / map_concat / map_optional / reverse, container::join / pop_back / pop_front / make_move_range, optional / either::sequence, grid::map / apply / resize, tree constructors, options / parse constructors',
                      'record::permute / multiply_disjoint / map, array::join / from_range, tuple::push_back (not built)']
    P.meta += ['the element type records copies, moves and reads of moved-from objects in ghost counters per element id; by parametricity the contracts carry over to every element type, in particular move-only ones (a copy would not compile there)']
    spec = ''
    for f, (req, asg, ens, what) in C.items():
        spec += 'function %s\n' % f + ''.join('  __CPROVER_requires(%s)\n' % r for r in req if r) + '  __CPROVER_assigns(%s)\n' % ', '.join(asg + [G]) + ''.join('  __CPROVER_ensures(%s)\n' % e for e in ens)
    P.generated['c05.spec'] = spec
    u = P.unit('c05', 'shim.cpp', specs=['c05.spec'], harness=['harness.c'], pre=['ghost.h'], inline=True)
    for f, (req, asg, ens, what) in C.items():
        u.contract(f, cls='P', backends=['sat', 'cvc5'], what=what, native=False, timeout=600)
    return P
