"""C05 - generic operations conserve values: rvalues are moved (never copied), lvalues are untouched, no read after move."""
from vf.plan import Plan

G = '__CPROVER_object_whole(n_copy), __CPROVER_object_whole(n_move), c_copy, c_move, c_readmoved, m_copy, m_move, m_readmoved, __CPROVER_object_whole(m_ncopy), __CPROVER_object_whole(m_nmove)'
NOCOPY = 'c_copy == __CPROVER_old(c_copy)'
NOMOVE = 'c_move == m_move'   # no move since the arguments were set up (vf_mark)
NORM = 'c_readmoved == __CPROVER_old(c_readmoved)'
ID = lambda *ids: ' && '.join('%s < 8' % i for i in ids) + (' && ' + ' && '.join('%s != %s' % (a, b) for k, a in enumerate(ids) for b in ids[k + 1:]) if len(ids) > 1 else '')
B = lambda *bs: ' && '.join('(%s == 0 || %s == 1)' % (b, b) for b in bs)
C = {}
C['vf_mir_r'] = ([ID('a')], [], ['__CPROVER_return_value == a', NOCOPY, NORM], 'move_if_rvalue<T>(x) moves')
C['vf_mir_l'] = ([ID('a'), '__CPROVER_is_fresh(st, 4)'], ['*st'], ['__CPROVER_return_value == a', '*st == 0', NOMOVE, NORM], 'move_if_rvalue<T&>(x) copies and leaves x intact')
for f, args, bools, res, what in (
        ('vf_omap_r', ('a',), ('h',), '(h ? a : (u32)-1)', 'optional::map on an rvalue'),
        ('vf_obind_r', ('a',), ('h',), '(h ? a : (u32)-1)', 'optional::bind on an rvalue'),
        ('vf_ojoin_r', ('a',), ('h1', 'h2'), '((h1 && h2) ? a : (u32)-1)', 'optional::join on an rvalue'),
        ('vf_ofilter_r', ('a',), ('h', 'keep'), '((h && keep) ? a : (u32)-1)', 'optional::filter on an rvalue'),
        ('vf_oalt_r', ('a', 'b'), ('h', 'hd'), '(h ? a : (hd ? b : (u32)-1))', 'optional::alternative on an rvalue'),
        ('vf_ocombine_rr', ('a', 'b'), ('h1', 'h2'), '(h1 ? a : (h2 ? b : (u32)-1))', 'optional::combine on two rvalues'),
        ('vf_ofrom_r', ('a', 'b'), ('h',), '(h ? a : b)', 'optional::from on an rvalue'),
        ('vf_omaybe_r', ('a',), ('h',), '(h ? a : (u32)-1)', 'optional::maybe on an rvalue'),
        ('vf_oapply_r', ('a', 'b'), ('h1', 'h2'), '((h1 && h2) ? a : (u32)-1)', 'optional::apply on rvalues'),
        ('vf_ematch_r', ('fa', 'su'), ('s',), '(s ? su : fa)', 'either::match on an rvalue'),
        ('vf_esucc_opt_r', ('fa', 'su'), ('s',), '(s ? su : (u32)-1)', 'either::success_opt on an rvalue'),
        ('vf_efail_opt_r', ('fa', 'su'), ('s',), '(s ? (u32)-1 : fa)', 'either::failure_opt on an rvalue'),
        ('vf_vmatch_r', ('a',), ('first',), '(first ? a : b)', 'variant::match on an rvalue'),
        ('vf_vtoopt_r', ('a',), ('first',), '(first ? a : (u32)-1)', 'variant::to_optional on an rvalue')):
    C[f] = ([ID(*args), B(*bools)], [], ['__CPROVER_return_value == %s' % res, NOCOPY, NORM], what + ': the held element is moved, never copied; no read of a moved-from object; the element arrives in the result')
for f, args, bools, res, st, what in (
        ('vf_omap_l', ('a',), ('h',), '(h ? a + 1000 : (u32)-1)', '*st == (h ? 1 : 0)', 'optional::map on an lvalue'),
        ('vf_obind_l', ('a',), ('h',), '(h ? a : (u32)-1)', '*st == (h ? 1 : 0)', 'optional::bind on an lvalue'),
        ('vf_ojoin_l', ('a',), ('h1', 'h2'), '((h1 && h2) ? a : (u32)-1)', '*st == ((h1 && h2) ? 1 : 0)', 'optional::join on an lvalue'),
        ('vf_ofilter_l', ('a',), ('h', 'keep'), '((h && keep) ? a : (u32)-1)', '*st == (h ? 1 : 0)', 'optional::filter on an lvalue'),
        ('vf_oalt_l', ('a', 'b'), ('h', 'hd'), '(h ? a : (hd ? b : (u32)-1))', '*st == (h ? 1 : 0)', 'optional::alternative on an lvalue'),
        ('vf_ofrom_l', ('a', 'b'), ('h',), '(h ? a : b)', '*st == (h ? 1 : 0)', 'optional::from on an lvalue')):
    C[f] = ([ID(*args), B(*bools), '__CPROVER_is_fresh(st, 4)'], ['*st'], ['__CPROVER_return_value == %s' % res, st, 'n_move[a] == m_nmove[a]', NORM], what + ': the argument is left intact (not moved from)')
C['vf_ofilter_rv'] = ([ID('a'), B('h', 'keep')], [], ['__CPROVER_return_value == ((h && keep) ? a : (u32)-1)', 'n_copy[a] == __CPROVER_old(n_copy[a]) + (h ? 1 : 0)', NORM], 'optional::filter on an rvalue with a predicate taking its argument by value: the predicate gets a copy, the value that is returned is intact (not moved from)')
C['vf_vtoopt_l'] = ([ID('a'), B('first'), '__CPROVER_is_fresh(st, 4)'], ['*st'], ['__CPROVER_return_value == (first ? a : (u32)-1)', '*st == (first ? 1 : 0)', NORM], 'variant::to_optional on a (non-const) lvalue variant: the held alternative is copied, the variant is left intact')
C['vf_vmatch_l'] = ([ID('a'), B('first'), '__CPROVER_is_fresh(st, 4)'], ['*st'], ['__CPROVER_return_value == (first ? a : b)', '*st == (first ? 1 : 0)', NOCOPY, NORM], 'variant::match on a (non-const) lvalue variant: the variant is left intact, nothing is copied by the library')
C['vf_ocombine_ll'] = ([ID('a', 'b'), B('h1', 'h2'), '__CPROVER_is_fresh(s1, 4) && __CPROVER_is_fresh(s2, 4)'], ['*s1', '*s2'],
                       ['__CPROVER_return_value == (h1 ? a : (h2 ? b : (u32)-1))', '*s1 == (h1 ? 1 : 0) && *s2 == (h2 ? 1 : 0)', NORM], 'optional::combine on two lvalues: both intact')
C['vf_ocombine_rl'] = ([ID('a', 'b'), B('h1', 'h2'), '__CPROVER_is_fresh(s2, 4)'], ['*s2'],
                       ['__CPROVER_return_value == (h1 ? a : (h2 ? b : (u32)-1))', '*s2 == (h2 ? 1 : 0)', 'n_move[b] == m_nmove[b]', 'n_copy[a] == m_ncopy[a]', NORM],
                       'optional::combine(rvalue, lvalue): the lvalue is intact (also when only it is set), the rvalue is never copied')
C['vf_ocombine_lr'] = ([ID('a', 'b'), B('h1', 'h2'), '__CPROVER_is_fresh(s1, 4)'], ['*s1'],
                       ['__CPROVER_return_value == (h1 ? (h2 ? b : a) : (h2 ? b : (u32)-1))', '*s1 == (h1 ? 1 : 0)', 'n_move[a] == m_nmove[a]', 'n_copy[b] == m_ncopy[b]', NORM],
                       'optional::combine(lvalue, rvalue): the lvalue is intact, the rvalue is never copied (also when only it is set)')
for f, what, res in (('vf_emap_r', 'either::map on an rvalue', '(s ? su : fa)'), ('vf_ebind_r', 'either::bind on an rvalue', '(s ? su : fa)'), ('vf_emapf_r', 'either::map_failure on an rvalue', '(s ? su : fa)')):
    C[f] = ([ID('fa', 'su'), B('s'), '__CPROVER_is_fresh(id, 4)'], ['*id'], ['__CPROVER_return_value == s && *id == %s' % res, NOCOPY, NORM], what + ': success AND failure are moved through, never copied')
for f, what in (('vf_emap_l', 'either::map on an lvalue'), ('vf_ebind_l', 'either::bind on an lvalue')):
    C[f] = ([ID('fa', 'su'), B('s'), '__CPROVER_is_fresh(id, 4) && __CPROVER_is_fresh(st, 4)'], ['*id', '*st'], ['__CPROVER_return_value == s && *id == (s ? su + 1000 : fa)', '*st == 0', NORM], what + ': the argument is left intact')
C['vf_efrom_opt_r'] = ([ID('a'), B('h'), '__CPROVER_is_fresh(id, 4)'], ['*id'], ['__CPROVER_return_value == h && *id == (h ? a : 77)', NOCOPY, NORM], 'either::from_optional on an rvalue')
C['vf_amap_r'] = ([ID('a', 'b'), '__CPROVER_is_fresh(out, 8)'], ['__CPROVER_object_whole(out)'], ['out[0] == a && out[1] == b', NOCOPY, NORM], 'array::map on an rvalue array: every element moved exactly into its place')
C['vf_amap_l'] = ([ID('a', 'b'), '__CPROVER_is_fresh(out, 8) && __CPROVER_is_fresh(st, 8)'], ['__CPROVER_object_whole(out)', '__CPROVER_object_whole(st)'], ['out[0] == a + 1000 && out[1] == b + 1000 && st[0] == 0 && st[1] == 0', NOMOVE, NORM], 'array::map on an lvalue array: source intact')
C['vf_tmap_r'] = ([ID('a', 'b'), '__CPROVER_is_fresh(out, 8)'], ['__CPROVER_object_whole(out)'], ['out[0] == a && out[1] == b', NOCOPY, NORM], 'tuple::map on an rvalue tuple')

# ---- range algorithms and container helpers on the fixed-capacity instrumented container (cont.cpp) ----
K = {}
IDC = lambda *ids: ' && '.join('%s < 7' % i for i in ids) + ' && ' + ' && '.join('%s != %s' % (a, b) for k, a in enumerate(ids) for b in ids[k + 1:])
E3 = lambda k: '(%s == 0 ? a0 : (%s == 1 ? a1 : a2))' % (k, k)
FR = lambda *ps: ' && '.join('__CPROVER_is_fresh(%s, %d)' % (p, 8 if p.endswith('n') else 16) for p in ps)
OWS = lambda *ps: ['__CPROVER_object_whole(%s)' % p for p in ps]
seq = lambda n, arr, f, m=4: '*%s == %s && ' % (n, '%s') + ' && '.join('VF_IMP(%d < *%s, %s[%d] == %s)' % (k, n, arr, k, f(str(k))) for k in range(m))
SRC3 = 'n <= 3 && ' + IDC('a0', 'a1', 'a2')
K['vf_cmap_r'] = ([SRC3, FR('on', 'ids')], OWS('on', 'ids'), [seq('on', 'ids', E3) % 'n', NOCOPY, NORM], 'algorithm::map on an rvalue container: every element is moved into the function, in order, never copied')
K['vf_cmap_l'] = ([SRC3, FR('on', 'ids', 'sn', 'sids')], OWS('on', 'ids', 'sn', 'sids'), [seq('on', 'ids', lambda k: E3(k) + ' + 1000') % 'n', seq('sn', 'sids', E3) % 'n', NOCOPY, NORM], 'algorithm::map on an lvalue container: the source is intact (no element moved from), nothing is copied by the library')
FOLD = '(n == 0 ? 1 : (n == 1 ? 8 + a0 : (n == 2 ? (8 + a0) * 8 + a1 : ((8 + a0) * 8 + a1) * 8 + a2)))'
K['vf_cfold_r'] = ([SRC3], [], ['__CPROVER_return_value == ' + FOLD, NOCOPY, NORM], 'algorithm::fold on an rvalue container: elements are handed to the function in order, never copied')
K['vf_cfold_l'] = ([SRC3, FR('sn', 'sids')], OWS('sn', 'sids'), ['__CPROVER_return_value == ' + FOLD, seq('sn', 'sids', E3) % 'n', NOCOPY, NORM], 'algorithm::fold on an lvalue container: source intact')
K['vf_cmap_concat'] = ([SRC3, FR('on', 'ids')], OWS('on', 'ids'), [seq('on', 'ids', E3) % 'n', NOCOPY, NORM], 'algorithm::map_concat: the partial results are joined by move - every element appears exactly once, in order, never copied')
TWO = 'n1 <= 2 && n2 <= 2 && ' + IDC('a0', 'a1', 'b0', 'b1')
XA = lambda k: '(%s == 0 ? a0 : a1)' % k
YB = lambda k: '(%s == 0 ? b0 : b1)' % k
JR = seq('on', 'ids', lambda k: '(%s < n1 ? %s : %s)' % (k, XA(k), YB('(%s - n1)' % k))) % 'n1 + n2'
ONCE = lambda n, ids: ' && '.join('n_copy[%s] == __CPROVER_old(n_copy[%s]) + (%s > %d ? 1 : 0)' % (i, i, n, k) for k, i in enumerate(ids))
NEVER = lambda ids: ' && '.join('n_copy[%s] == __CPROVER_old(n_copy[%s])' % (i, i) for i in ids)
K['vf_cjoin_rr'] = ([TWO, FR('on', 'ids')], OWS('on', 'ids'), [JR, NOCOPY, NORM], 'container::join(rvalue, rvalue): all elements, in order, each exactly once, none copied')
K['vf_cjoin_ll'] = ([TWO, FR('on', 'ids', 'xn', 'xids', 'yn', 'yids')], OWS('on', 'ids', 'xn', 'xids', 'yn', 'yids'), [JR, seq('xn', 'xids', XA, 2) % 'n1', seq('yn', 'yids', YB, 2) % 'n2', ONCE('n1', ('a0', 'a1')), ONCE('n2', ('b0', 'b1')), NORM],
                     'container::join(lvalue, lvalue): both arguments intact (same size, no element moved from), every element copied exactly once')
K['vf_cjoin_rl'] = ([TWO, FR('on', 'ids', 'yn', 'yids')], OWS('on', 'ids', 'yn', 'yids'), [JR, seq('yn', 'yids', YB, 2) % 'n2', NEVER(('a0', 'a1')), ONCE('n2', ('b0', 'b1')), NORM], 'container::join(rvalue, lvalue): the lvalue is intact (also when the first container is empty), the rvalue elements are never copied')
K['vf_cjoin_lr'] = ([TWO, FR('on', 'ids', 'xn', 'xids')], OWS('on', 'ids', 'xn', 'xids'), [JR, seq('xn', 'xids', XA, 2) % 'n1', ONCE('n1', ('a0', 'a1')), NEVER(('b0', 'b1')), NORM], 'container::join(lvalue, rvalue): the lvalue is intact, the rvalue elements are never copied')
K['vf_cpop_back'] = ([SRC3, FR('sn', 'sids')], OWS('sn', 'sids'), ['__CPROVER_return_value == (n == 0 ? (u32)-1 : %s)' % E3('(n - 1)'), seq('sn', 'sids', E3) % '(n == 0 ? 0 : n - 1)', NOCOPY, NORM], 'container::pop_back: the last element is moved out (never copied), the rest is intact')
K['vf_cpop_back_ne'] = ([SRC3, FR('sn', 'sids')], OWS('sn', 'sids'), ['__CPROVER_return_value == (n == 0 ? (u32)-1 : %s)' % E3('(n - 1)'), seq('sn', 'sids', E3) % '(n == 0 ? 0 : n - 1)', NOCOPY, NORM], 'container::pop_back with an element type whose move constructor is not noexcept: the last element is still MOVED out (never copied)')
K['vf_cmove_clear'] = ([SRC3, FR('on', 'ids', 'sn')], OWS('on', 'ids', 'sn'), [seq('on', 'ids', E3) % 'n', '*sn == 0', NOCOPY, NORM], 'move_clear: the result holds all elements (moved, never copied), the argument is left empty')

K['vf_cget_or_insert'] = (['n <= 2 && (n < 2 || k0 != k1) && ' + IDC('a0', 'a1', 'fresh'), '__CPROVER_is_fresh(inserted, 1) && __CPROVER_is_fresh(on, 8) && __CPROVER_is_fresh(ids, 16)'], ['*inserted'] + OWS('on', 'ids'),
                          ['__CPROVER_return_value == ((0 < n && k0 == key) ? a0 : ((1 < n && k1 == key) ? a1 : fresh))', '*inserted == !((0 < n && k0 == key) || (1 < n && k1 == key))', '*on == n + (*inserted ? 1 : 0)',
                           'VF_IMP(0 < n, ids[0] == a0) && VF_IMP(1 < n, ids[1] == a1) && VF_IMP(*inserted, ids[n] == fresh)', NOCOPY, NORM],
                          'container::get_or_insert(_with_result): the created value is moved into the map (never copied), present values are untouched, nothing is read after a move')


import itertools
HH = ['h0', 'h1', 'h2']; AA = ['a0', 'a1', 'a2']
def filt(keep, val, outn='*on', out='ids'):
    cl = []
    for m in itertools.product((0, 1), repeat=3):
        cond = ' && '.join(('(%d < n && %s)' % (k, keep(k))) if m[k] else ('!(%d < n && %s)' % (k, keep(k))) for k in range(3))
        kept = [k for k in range(3) if m[k]]
        cl.append('VF_IMP(%s, %s)' % (cond, ' && '.join(['%s == %d' % (outn, len(kept))] + ['%s[%d] == %s' % (out, j, val(k)) for j, k in enumerate(kept)])))
    return cl
OS = 'n <= 3 && ' + IDC('a0', 'a1', 'a2') + ' && ' + B('h0', 'h1', 'h2')
ALLH = '(' + ' && '.join('(!(%d < n) || %s)' % (k, HH[k]) for k in range(3)) + ')'
FF = '(!(0 < n && !h0) ? (!(1 < n && !h1) ? a2 : a1) : a0)'
INT = ' && '.join('st[%d] == (h%d ? 1 : 0)' % (k, k) for k in range(3))
ALLIDS = 'VF_IMP(%s, *on == n && %s)' % (ALLH, ' && '.join('VF_IMP(%d < n, ids[%d] == a%d)' % (k, k, k) for k in range(3)))
K['vf_ccat_r'] = ([OS, FR('on', 'ids')], OWS('on', 'ids'), filt(lambda k: HH[k], lambda k: AA[k]) + [NOCOPY, NORM], 'optional::cat on an rvalue container of optionals: the held values are moved out, never copied')
K['vf_ccat_l'] = ([OS, FR('on', 'ids') + ' && __CPROVER_is_fresh(st, 12)'], OWS('on', 'ids', 'st'), filt(lambda k: HH[k], lambda k: AA[k]) + [INT, ' && '.join('n_copy[a%d] == __CPROVER_old(n_copy[a%d]) + ((%d < n && h%d) ? 1 : 0)' % (k, k, k, k) for k in range(3)), NORM],
                  'optional::cat on an lvalue container: the source optionals are intact, every held value is copied exactly once')
K['vf_cseq_r'] = ([OS, FR('on', 'ids')], OWS('on', 'ids'), ['__CPROVER_return_value == ' + ALLH, ALLIDS, NOCOPY, NORM], 'optional::sequence on an rvalue container: values moved, never copied')
K['vf_cseq_l'] = ([OS, FR('on', 'ids') + ' && __CPROVER_is_fresh(st, 12)'], OWS('on', 'ids', 'st'), ['__CPROVER_return_value == ' + ALLH, ALLIDS, INT, NORM], 'optional::sequence on an lvalue container: the source is intact')
K['vf_ceseq_r'] = ([OS, FR('on', 'ids') + ' && __CPROVER_is_fresh(fail, 4)'], OWS('on', 'ids') + ['*fail'], ['__CPROVER_return_value == ' + ALLH, ALLIDS, 'VF_IMP(!%s, *fail == %s)' % (ALLH, FF), NOCOPY, NORM],
                   'either::sequence on an rvalue container: successes and the first failure are moved, never copied')

# ---- fixed-arity containers: array / tuple / record combinators (fix.cpp)
F = {}
def _fx(f, ids, nout, nst, ens_extra, what, ret=None):
    req = [ID(*ids), '__CPROVER_is_fresh(out, %d)' % (4 * nout)] if nout else [ID(*ids)]
    asg = ['__CPROVER_object_whole(out)'] if nout else []
    if nst:
        req.append('__CPROVER_is_fresh(st, %d)' % (4 * nst)); asg.append('__CPROVER_object_whole(st)')
    F[f] = (req, asg, ens_extra + [NORM], what)
OUT = lambda *ids: ' && '.join('out[%d] == %s' % (k, i) for k, i in enumerate(ids))
ST0 = lambda n: ' && '.join('st[%d] == 0' % k for k in range(n))
_fx('vf_aappend_rr', ('a0', 'a1', 'b0'), 3, 0, [OUT('a0', 'a1', 'b0'), NOCOPY], 'array::append(rvalue, rvalue): every element moved into its place, none copied')
_fx('vf_aappend_rl', ('a0', 'a1', 'b0'), 3, 1, [OUT('a0', 'a1', 'b0'), ST0(1), NEVER(('a0', 'a1'))], 'array::append(rvalue, lvalue): the lvalue array is intact, the rvalue elements are never copied')
_fx('vf_ajoin_r', ('a0', 'a1', 'b0', 'c0'), 4, 0, [OUT('a0', 'a1', 'b0', 'c0'), NOCOPY], 'array::join of three rvalue arrays: all elements in order, none copied')
_fx('vf_ajoin_mixed', ('a0', 'a1', 'b0', 'c0'), 4, 1, [OUT('a0', 'a1', 'b0', 'c0'), ST0(1), NEVER(('a0', 'a1', 'c0'))], 'array::join(rvalue, lvalue, rvalue): the lvalue array is intact, the rvalue elements are never copied')
_fx('vf_apush_rr', ('a0', 'a1', 'b0'), 3, 0, [OUT('a0', 'a1', 'b0'), NOCOPY], 'array::push_back(rvalue array, rvalue element): moved, never copied')
F['vf_afrom_r'] = (['n <= 3 && ' + ID('a0', 'a1', 'a2'), '__CPROVER_is_fresh(out, 8)'], ['__CPROVER_object_whole(out)'], ['__CPROVER_return_value == (n == 2)', 'VF_IMP(n == 2, out[0] == a0 && out[1] == a1)', NOCOPY, NORM], 'array::from_range<2> on an rvalue range of symbolic size: a value exactly for size 2, elements moved, never copied')
F['vf_afrom_l'] = (['n <= 3 && ' + ID('a0', 'a1', 'a2'), '__CPROVER_is_fresh(out, 8) && __CPROVER_is_fresh(st, 12)'], ['__CPROVER_object_whole(out)', '__CPROVER_object_whole(st)'], ['__CPROVER_return_value == (n == 2)', 'VF_IMP(n == 2, out[0] == a0 && out[1] == a1)', ST0(3), NORM], 'array::from_range<2> on an lvalue range: the source is intact')
_fx('vf_aapply_r', ('a0', 'a1', 'b0', 'b1'), 2, 0, [OUT('a0', 'a1'), NOCOPY], 'array::apply (binary) on rvalue arrays: elements moved into the function, never copied')
_fx('vf_tpush_rr', ('a0', 'a1', 'b0'), 3, 0, [OUT('a0', 'a1', 'b0'), NOCOPY], 'tuple::push_back(rvalue, rvalue): moved, never copied')
_fx('vf_tpush_ll', ('a0', 'a1', 'b0'), 3, 3, [OUT('a0', 'a1', 'b0'), ST0(3)], 'tuple::push_back(lvalue, lvalue): tuple and new element intact')
_fx('vf_tconcat_rr', ('a0', 'a1', 'b0'), 3, 0, [OUT('a0', 'a1', 'b0'), NOCOPY], 'tuple::concat of rvalue tuples: moved, never copied')
_fx('vf_tfrom_array_r', ('a0', 'a1'), 2, 0, [OUT('a0', 'a1'), NOCOPY], 'tuple::from_array on an rvalue array: moved, never copied')
_fx('vf_tfrom_array_l', ('a0', 'a1'), 2, 2, [OUT('a0', 'a1'), ST0(2)], 'tuple::from_array on an lvalue array: source intact')
_fx('vf_tinvoke_r', ('a0', 'a1'), 0, 0, ['__CPROVER_return_value == a0 * 8 + a1', NOCOPY], 'tuple::invoke on an rvalue tuple: the elements are handed to the function by move, in order')
_fx('vf_rpermute_r', ('a0', 'b0'), 2, 0, [OUT('a0', 'b0'), NOCOPY], 'record::permute on an rvalue record: every element moved to its label, never copied')
_fx('vf_rpermute_l', ('a0', 'b0'), 2, 2, [OUT('a0', 'b0'), ST0(2)], 'record::permute on an lvalue record: source intact')
_fx('vf_rmul_rr', ('a0', 'b0', 'c0'), 3, 0, [OUT('a0', 'b0', 'c0'), NOCOPY], 'record::multiply_disjoint(rvalue, rvalue): moved, never copied')
_fx('vf_rmul_ll', ('a0', 'b0', 'c0'), 3, 3, [OUT('a0', 'b0', 'c0'), ST0(3)], 'record::multiply_disjoint(lvalue, lvalue): both records intact')
_fx('vf_rmul_rl', ('a0', 'b0', 'c0'), 3, 1, [OUT('a0', 'b0', 'c0'), ST0(1), NEVER(('a0', 'b0'))], 'record::multiply_disjoint(rvalue, lvalue): the lvalue record is intact, the rvalue elements are never copied')
_fx('vf_rmul_lr', ('a0', 'b0', 'c0'), 3, 2, [OUT('a0', 'b0', 'c0'), ST0(2), NEVER(('c0',))], 'record::multiply_disjoint(lvalue, rvalue): the lvalue record is intact, the rvalue element is never copied')
_fx('vf_rmap_r', ('a0', 'b0'), 2, 0, [OUT('a0', 'b0'), NOCOPY], 'record::map on an rvalue record: elements moved into the function, never copied')

def make(tier):
    P = Plan('C05', level='proof', design_ref='DESIGN.md section 5 C05')
    P.not_decided += ['the same algorithms on heap containers (std::vector steals the buffer on move; the contracts here are checked on a fixed-capacity container of the instrumented type): algorithm::fold_break / map_optional / reverse, container::pop_front / make_move_range, grid::map / apply / resize (std::vector of a non-trivial element: 20 GB exhausted, experiments/C05_grid_trk), tree::map, options / parse constructors',
                      'array::append / join / push_back with an lvalue first array, tuple::concat with an lvalue tuple and record::map on an lvalue record do not compile on the pinned tree (the trait is applied to the reference type) - only the forms that compile are under contract; container::get_or_insert on std::map (it is under contract on a fixed-capacity map of the instrumented type)']
    P.meta += ['the element type records copies, moves and reads of moved-from objects in ghost counters per element id; by parametricity the contracts carry over to every element type, in particular move-only ones (a copy would not compile there)']
    spec = ''
    for f, (req, asg, ens, what) in C.items():
        spec += 'function %s\n' % f + ''.join('  __CPROVER_requires(%s)\n' % r for r in req if r) + '  __CPROVER_assigns(%s)\n' % ', '.join(asg + [G]) + ''.join('  __CPROVER_ensures(%s)\n' % e for e in ens)
    P.generated['c05.spec'] = spec
    u = P.unit('c05', 'shim.cpp', specs=['c05.spec'], harness=['harness.c'], pre=['ghost.h'], inline=True)
    for f, (req, asg, ens, what) in C.items():
        u.contract(f, cls='P', backends=['sat', 'cvc5'], what=what, native=False, timeout=600)
    kspec = ''
    for f, (req, asg, ens, what) in K.items():
        kspec += 'function %s\n' % f + ''.join('  __CPROVER_requires(%s)\n' % r for r in req if r) + '  __CPROVER_assigns(%s)\n' % ', '.join(asg + [G]) + ''.join('  __CPROVER_ensures(%s)\n' % e for e in ens)
    P.generated['c05k.spec'] = kspec
    uk = P.unit('cont', 'cont.cpp', specs=['c05k.spec'], harness=['harness.c'], pre=['ghost.h'], inline=True)
    for f, (req, asg, ens, what) in K.items():
        uk.contract(f, cls='W', unwind=10, backends=['sat', 'cvc5'], what=what, native=False, timeout=900,
                    bound='fixed-capacity container (capacity 4) with symbolic size <= 3 (join: 2 + 2): every loop is bounded by the capacity, unwinding assertions on; complete for this container type')
    fspec = ''
    for f, (req, asg, ens, what) in F.items():
        fspec += 'function %s\n' % f + ''.join('  __CPROVER_requires(%s)\n' % r for r in req if r) + '  __CPROVER_assigns(%s)\n' % ', '.join(asg + [G]) + ''.join('  __CPROVER_ensures(%s)\n' % e for e in ens)
    P.generated['c05f.spec'] = fspec
    uf = P.unit('fix', 'fix.cpp', specs=['c05f.spec'], harness=['harness.c'], pre=['ghost.h'], inline=True)
    for f, (req, asg, ens, what) in F.items():
        uf.contract(f, cls='W' if f.startswith('vf_afrom') else 'P', unwind=10 if f.startswith('vf_afrom') else None, backends=['sat', 'cvc5'], what=what, native=False, timeout=600,
                    bound='source range of capacity 3 with symbolic size' if f.startswith('vf_afrom') else '')
    # ---- tree of instrumented values (std::list nodes; lemma jobs without --dfcc as in C09)
    NOC = '  __CPROVER_assert(c_copy == m_copy, "no value is copied");\n  __CPROVER_assert(c_readmoved == m_readmoved, "no read of a moved-from value");\n  VF_PROBE(); }\n'
    ht = ('void h_tree_trk_build(void){ VF_IN(u32, a); VF_IN(u32, b); VF_IN(u32, c); __CPROVER_assume(a < 7 && b < 7 && c < 7 && a != b && a != c && b != c); u32 bad = vf_tree_trk_build(a, b, c);\n'
          '  __CPROVER_assert((bad & 1u) == 0, "tree(T&&), push_back(T&&), push_back(tree&&): the values are in place");\n' + NOC +
          'void h_tree_trk_front(void){ VF_IN(u32, a); VF_IN(u32, b); VF_IN(u32, c); __CPROVER_assume(a < 7 && b < 7 && c < 7 && a != b && a != c && b != c); u32 bad = vf_tree_trk_front(a, b, c);\n'
          '  __CPROVER_assert((bad & 1u) == 0, "push_front(T&&), insert(pos, T&&): the values are in place");\n' + NOC +
          'void h_tree_trk_front_tree(void){ VF_IN(u32, a); VF_IN(u32, b); __CPROVER_assume(a < 7 && b < 7 && a != b); u32 bad = vf_tree_trk_front_tree(a, b);\n'
          '  __CPROVER_assert((bad & 1u) == 0, "push_front(tree&&): the subtree is in place");\n' + NOC +
          'void h_tree_trk_move(void){ VF_IN(u32, a); VF_IN(u32, b); __CPROVER_assume(a < 7 && b < 7 && a != b); u32 bad = vf_tree_trk_move(a, b);\n'
          '  __CPROVER_assert((bad & 1u) == 0, "tree(tree&&) takes over value and children");\n' + NOC +
          'void h_tree_trk_pop(void){ VF_IN(u32, a); VF_IN(u32, b); __CPROVER_assume(a < 7 && b < 7 && a != b); u32 bad = vf_tree_trk_pop(a, b);\n'
          '  __CPROVER_assert((bad & 1u) == 0, "pop_back moves the last child out, the rest stays");\n' + NOC +
          'void h_tree_trk_copy(void){ VF_IN(u32, a); VF_IN(u32, b); __CPROVER_assume(a < 7 && b < 7 && a != b); u32 bad = vf_tree_trk_copy(a, b);\n'
          '  __CPROVER_assert((bad & 1u) == 0, "the copy holds the same values");\n  __CPROVER_assert((bad & 2u) == 0, "the source tree is intact (nothing moved from)");\n'
          '  __CPROVER_assert(n_copy[a] == m_ncopy[a] + 1 && n_copy[b] == m_ncopy[b] + 1 && c_move == m_move, "copying a tree copies every value exactly once and moves none");\n  VF_PROBE(); }\n')
    P.generated['c05_tree_h.c'] = ht
    ut = P.unit('tree', 'tree.cpp', harness=['../C09/harness.c', 'harness.c', 'c05_tree_h.c'], pre=['ghost.h'], inline=True, maxb=32)
    LIST = 'assumed contracts (executable models, props/C09/harness.c): std::__detail::_List_node_base::_M_hook / _M_unhook / _M_transfer / swap (machine code in libstdc++.so)'
    for nm, what in (('h_tree_trk_build', 'tree(T&&), push_back(T&&), push_back(tree&&): values moved, never copied'), ('h_tree_trk_front', 'push_front(T&&), insert(pos, T&&): values moved, never copied'), ('h_tree_trk_front_tree', 'push_front(tree&&): moved, never copied'), ('h_tree_trk_move', 'tree(tree&&): values moved, never copied'), ('h_tree_trk_pop', 'pop_back: the child is moved out, never copied'), ('h_tree_trk_copy', 'tree copy construction: every value copied exactly once, source intact')):
        ut.lemma(nm, cls='B', unwind=3, unwind_files={'harness.c': 10}, mem=24, bound='trees of at most 3 nodes of instrumented values', backends=['sat'], cbmc=['--slice-formula'], timeout=1200, what=what, assumed=[LIST], native=False)
    return P
