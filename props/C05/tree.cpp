// C05 shim (tree of instrumented values, own translation unit): tree constructors / push_back / move / copy / pop conserve values
#include <fcppt/container/tree/object.hpp>
#include <utility>
extern "C" { void vf_mark(void); void vf_trk_copy(int id); void vf_trk_move(int id); void vf_trk_read_moved(int id); void vf_trk_assign_over(int id); }
struct trk {
  int id; bool moved_from;
  explicit trk(int i) : id(i), moved_from(false) {}
  trk(trk const &o) : id(o.id), moved_from(false) { if (o.moved_from) vf_trk_read_moved(o.id); vf_trk_copy(o.id); }
  trk(trk &&o) noexcept : id(o.id), moved_from(false) { if (o.moved_from) vf_trk_read_moved(o.id); o.moved_from = true; vf_trk_move(o.id); }
  trk &operator=(trk const &o) { if (o.moved_from) vf_trk_read_moved(o.id); vf_trk_assign_over(id); id = o.id; moved_from = false; vf_trk_copy(o.id); return *this; }
  trk &operator=(trk &&o) noexcept { if (o.moved_from) vf_trk_read_moved(o.id); vf_trk_assign_over(id); id = o.id; moved_from = false; o.moved_from = true; vf_trk_move(o.id); return *this; }
};
using tree = fcppt::container::tree::object<trk>;
static int idv(tree const &t){ return t.value().moved_from ? -2 : t.value().id; }
#define BAD(k, cond) do { if (!(cond)) bad |= (1u << (k)); } while (0)
extern "C" {
// building from rvalues, moving the whole tree, popping a child: nothing is ever copied (one step per scenario)
unsigned vf_tree_trk_build(int a, int b, int c){ unsigned bad = 0; vf_mark();
  tree t{trk{a}}; t.push_back(trk{b}); t.push_back(tree{trk{c}});
  BAD(0, idv(t) == a && t.size() == 2 && idv(t.front().get_unsafe().get()) == b && idv(t.back().get_unsafe().get()) == c); return bad; }
unsigned vf_tree_trk_move(int a, int b){ unsigned bad = 0; tree t{trk{a}}; t.push_back(trk{b}); vf_mark();
  tree u{std::move(t)};
  BAD(0, idv(u) == a && u.size() == 1 && idv(u.front().get_unsafe().get()) == b); return bad; }
unsigned vf_tree_trk_front(int a, int b, int c){ unsigned bad = 0; vf_mark();      // the front / middle insertion overloads taking rvalues
  tree t{trk{a}}; t.push_front(trk{b}); t.insert(t.begin(), trk{c});
  BAD(0, idv(t) == a && t.size() == 2 && idv(t.front().get_unsafe().get()) == c && idv(t.back().get_unsafe().get()) == b); return bad; }
unsigned vf_tree_trk_front_tree(int a, int b){ unsigned bad = 0; vf_mark();
  tree t{trk{a}}; t.push_front(tree{trk{b}});
  BAD(0, idv(t) == a && t.size() == 1 && idv(t.front().get_unsafe().get()) == b); return bad; }
unsigned vf_tree_trk_pop(int a, int b){ unsigned bad = 0; tree t{trk{a}}; t.push_back(trk{b}); vf_mark();
  auto p{t.pop_back()};
  BAD(0, p.has_value() && idv(p.get_unsafe()) == b && t.empty() && idv(t) == a); return bad; }
// copying a tree copies every value exactly once and leaves the source intact
unsigned vf_tree_trk_copy(int a, int b){ unsigned bad = 0; tree t{trk{a}}; t.push_back(trk{b}); vf_mark();
  tree const v{t};
  BAD(0, idv(v) == a && v.size() == 1 && idv(v.front().get_unsafe().get()) == b);
  BAD(1, idv(t) == a && t.size() == 1 && idv(t.front().get_unsafe().get()) == b);
  return bad; }
}
