void vf_trk_copy(u32 id){ ++c_copy; ++n_copy[id & 7]; }
void vf_trk_move(u32 id){ ++c_move; ++n_move[id & 7]; }
void vf_trk_read_moved(u32 id){ ++c_readmoved; }
void vf_trk_assign_over(u32 id){ }
void vf_mark(void){ m_copy = c_copy; m_move = c_move; m_readmoved = c_readmoved; for (unsigned i = 0; i < 8; ++i) { m_ncopy[i] = n_copy[i]; m_nmove[i] = n_move[i]; } }
