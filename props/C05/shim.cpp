// C05 shim: the generic combinators instantiated with an instrumented element type `trk` whose copy / move / read of a
// moved-from object call harness hooks (ghost counters per element id).
#include <fcppt/move_if_rvalue.hpp>
#include <fcppt/optional/object.hpp>
#include <fcppt/optional/map.hpp>
#include <fcppt/optional/bind.hpp>
#include <fcppt/optional/join.hpp>
#include <fcppt/optional/apply.hpp>
#include <fcppt/optional/filter.hpp>
#include <fcppt/optional/alternative.hpp>
#include <fcppt/optional/combine.hpp>
#include <fcppt/optional/from.hpp>
#include <fcppt/optional/maybe.hpp>
#include <fcppt/either/object.hpp>
#include <fcppt/either/map.hpp>
#include <fcppt/either/bind.hpp>
#include <fcppt/either/match.hpp>
#include <fcppt/either/map_failure.hpp>
#include <fcppt/either/success_opt.hpp>
#include <fcppt/either/failure_opt.hpp>
#include <fcppt/either/from_optional.hpp>
#include <fcppt/variant/object.hpp>
#include <fcppt/variant/match.hpp>
#include <fcppt/variant/to_optional.hpp>
#include <fcppt/array/object.hpp>
#include <fcppt/array/map.hpp>
#include <fcppt/array/get.hpp>
#include <fcppt/tuple/object.hpp>
#include <fcppt/tuple/map.hpp>
#include <fcppt/tuple/get.hpp>
#include <utility>
#include <variant>
extern "C" { void vf_mark(void); void vf_trk_copy(int id); void vf_trk_move(int id); void vf_trk_read_moved(int id); void vf_trk_assign_over(int id); }
template <int Tag> struct trk_t {
  int id; bool moved_from;
  explicit trk_t(int i) : id(i), moved_from(false) {}
  trk_t(trk_t const &o) : id(o.id), moved_from(false) { if (o.moved_from) vf_trk_read_moved(o.id); vf_trk_copy(o.id); }
  trk_t(trk_t &&o) noexcept : id(o.id), moved_from(false) { if (o.moved_from) vf_trk_read_moved(o.id); o.moved_from = true; vf_trk_move(o.id); }
  trk_t &operator=(trk_t const &o) { if (o.moved_from) vf_trk_read_moved(o.id); vf_trk_assign_over(id); id = o.id; moved_from = false; vf_trk_copy(o.id); return *this; }
  trk_t &operator=(trk_t &&o) noexcept { if (o.moved_from) vf_trk_read_moved(o.id); vf_trk_assign_over(id); id = o.id; moved_from = false; o.moved_from = true; vf_trk_move(o.id); return *this; }
  ~trk_t() = default;
  int get() const { if (moved_from) vf_trk_read_moved(id); return id; }
};
using trk = trk_t<0>; using ftrk = trk_t<1>;
using opt = fcppt::optional::object<trk>; using oopt = fcppt::optional::object<opt>;
using eit = fcppt::either::object<ftrk, trk>;      // failure and success both instrumented (ids differ)
using var = fcppt::variant::object<trk, int>;
namespace o = fcppt::optional; namespace e = fcppt::either;
static int idof(opt const &x){ return x.has_value() ? x.get_unsafe().get() : -1; }
static int state(opt const &x){ return x.has_value() ? (x.get_unsafe().moved_from ? 2 : 1) : 0; }   // 0 empty, 1 intact, 2 moved-from
static int outc(eit const &x, int *id){ if (x.has_success()) { *id = x.get_success_unsafe().get(); return 1; } *id = x.get_failure_unsafe().get(); return 0; }
extern "C" {
// ---- move_if_rvalue
int vf_mir_r(int a){ trk x{a}; trk y{fcppt::move_if_rvalue<trk>(x)}; return y.get(); }
int vf_mir_l(int a, int *st){ trk x{a}; vf_mark(); trk y{fcppt::move_if_rvalue<trk &>(x)}; *st = x.moved_from; return y.get(); }
// ---- optional: rvalue (_r) and lvalue (_l) argument; continuation takes trk&& / trk const& and returns the id or a fresh trk
int vf_omap_r(bool h, int a){ auto r = o::map(h ? opt{trk{a}} : opt{}, [](trk &&t){ return trk{std::move(t)}; }); return idof(r); }
int vf_omap_l(bool h, int a, int *st){ opt x{h ? opt{trk{a}} : opt{}}; vf_mark(); auto r = o::map(x, [](trk const &t){ return t.get() + 1000; }); *st = state(x); return r.has_value() ? r.get_unsafe() : -1; }
int vf_obind_r(bool h, int a){ auto r = o::bind(h ? opt{trk{a}} : opt{}, [](trk &&t){ return opt{trk{std::move(t)}}; }); return idof(r); }
int vf_obind_l(bool h, int a, int *st){ opt x{h ? opt{trk{a}} : opt{}}; vf_mark(); auto r = o::bind(x, [](trk const &t){ return fcppt::optional::object<int>{t.get()}; }); *st = state(x); return r.has_value() ? r.get_unsafe() : -1; }
int vf_ojoin_r(bool h1, bool h2, int a){ auto r = o::join(h1 ? oopt{h2 ? opt{trk{a}} : opt{}} : oopt{}); return idof(r); }
int vf_ojoin_l(bool h1, bool h2, int a, int *st){ oopt x{h1 ? oopt{h2 ? opt{trk{a}} : opt{}} : oopt{}}; vf_mark(); auto r = o::join(x); *st = x.has_value() ? state(x.get_unsafe()) : 0; return idof(r); }
int vf_ofilter_r(bool h, int a, bool keep){ auto r = o::filter(h ? opt{trk{a}} : opt{}, [keep](trk const &){ return keep; }); return idof(r); }
int vf_ofilter_rv(bool h, int a, bool keep){ auto r = o::filter(h ? opt{trk{a}} : opt{}, [keep](trk t){ return keep && t.get() >= 0; }); return idof(r); }   // the predicate takes its argument BY VALUE
int vf_ofilter_l(bool h, int a, bool keep, int *st){ opt x{h ? opt{trk{a}} : opt{}}; vf_mark(); auto r = o::filter(x, [keep](trk const &){ return keep; }); *st = state(x); return idof(r); }
int vf_oalt_r(bool h, int a, bool hd, int b){ auto r = o::alternative(h ? opt{trk{a}} : opt{}, [hd, b]{ return hd ? opt{trk{b}} : opt{}; }); return idof(r); }
int vf_oalt_l(bool h, int a, bool hd, int b, int *st){ opt x{h ? opt{trk{a}} : opt{}}; vf_mark(); auto r = o::alternative(x, [hd, b]{ return hd ? opt{trk{b}} : opt{}; }); *st = state(x); return idof(r); }
// combine: all four value-category combinations of the two arguments
int vf_ocombine_rr(bool h1, int a, bool h2, int b){ auto r = o::combine(h1 ? opt{trk{a}} : opt{}, h2 ? opt{trk{b}} : opt{}, [](trk &&x, trk &&){ return trk{std::move(x)}; }); return idof(r); }
int vf_ocombine_ll(bool h1, int a, bool h2, int b, int *s1, int *s2){ opt x{h1 ? opt{trk{a}} : opt{}}, y{h2 ? opt{trk{b}} : opt{}}; vf_mark(); auto r = o::combine(x, y, [](trk const &p, trk const &){ return trk{p}; }); *s1 = state(x); *s2 = state(y); return idof(r); }
int vf_ocombine_rl(bool h1, int a, bool h2, int b, int *s2){ opt x{h1 ? opt{trk{a}} : opt{}}, y{h2 ? opt{trk{b}} : opt{}}; vf_mark(); auto r = o::combine(std::move(x), y, [](trk &&p, trk const &){ return trk{std::move(p)}; }); *s2 = state(y); return idof(r); }
int vf_ocombine_lr(bool h1, int a, bool h2, int b, int *s1){ opt x{h1 ? opt{trk{a}} : opt{}}, y{h2 ? opt{trk{b}} : opt{}}; vf_mark(); auto r = o::combine(x, std::move(y), [](trk const &, trk &&q){ return trk{std::move(q)}; }); *s1 = state(x); return idof(r); }
int vf_ofrom_r(bool h, int a, int b){ trk r{o::from(h ? opt{trk{a}} : opt{}, [b]{ return trk{b}; })}; return r.get(); }
int vf_ofrom_l(bool h, int a, int b, int *st){ opt x{h ? opt{trk{a}} : opt{}}; vf_mark(); trk r{o::from(x, [b]{ return trk{b}; })}; *st = state(x); return r.get(); }
int vf_omaybe_r(bool h, int a){ return o::maybe(h ? opt{trk{a}} : opt{}, []{ return -1; }, [](trk &&t){ trk k{std::move(t)}; return k.get(); }); }
int vf_oapply_r(bool h1, int a, bool h2, int b){ auto r = o::apply([](trk &&x, trk &&y){ trk k{std::move(y)}; return trk{std::move(x)}; }, h1 ? opt{trk{a}} : opt{}, h2 ? opt{trk{b}} : opt{}); return idof(r); }
// ---- either (failure id f, success id s)
int vf_emap_r(bool s, int fa, int su, int *id){ auto r = e::map(s ? eit{trk{su}} : eit{ftrk{fa}}, [](trk &&t){ return trk{std::move(t)}; }); return outc(r, id); }
int vf_emap_l(bool s, int fa, int su, int *id, int *st){ eit x{s ? eit{trk{su}} : eit{ftrk{fa}}}; vf_mark(); auto r = e::map(x, [](trk const &t){ return trk{t.get() + 1000}; }); *st = s ? x.get_success_unsafe().moved_from : x.get_failure_unsafe().moved_from; return outc(r, id); }
int vf_ebind_r(bool s, int fa, int su, int *id){ auto r = e::bind(s ? eit{trk{su}} : eit{ftrk{fa}}, [](trk &&t){ return eit{trk{std::move(t)}}; }); return outc(r, id); }
int vf_ebind_l(bool s, int fa, int su, int *id, int *st){ eit x{s ? eit{trk{su}} : eit{ftrk{fa}}}; vf_mark(); auto r = e::bind(x, [](trk const &t){ return eit{trk{t.get() + 1000}}; }); *st = s ? x.get_success_unsafe().moved_from : x.get_failure_unsafe().moved_from; return outc(r, id); }
int vf_emapf_r(bool s, int fa, int su, int *id){ auto r = e::map_failure(s ? eit{trk{su}} : eit{ftrk{fa}}, [](ftrk &&t){ return ftrk{std::move(t)}; }); return outc(r, id); }
int vf_ematch_r(bool s, int fa, int su){ return e::match(s ? eit{trk{su}} : eit{ftrk{fa}}, [](ftrk &&t){ ftrk k{std::move(t)}; return k.get(); }, [](trk &&t){ trk k{std::move(t)}; return k.get(); }); }
int vf_esucc_opt_r(bool s, int fa, int su){ auto r = e::success_opt(s ? eit{trk{su}} : eit{ftrk{fa}}); return idof(r); }
int vf_efail_opt_r(bool s, int fa, int su){ auto r = e::failure_opt(s ? eit{trk{su}} : eit{ftrk{fa}}); return r.has_value() ? r.get_unsafe().get() : -1; }
int vf_efrom_opt_r(bool h, int a, int *id){ auto r = e::from_optional(h ? opt{trk{a}} : opt{}, []{ return ftrk{77}; }); return outc(r, id); }
// ---- variant
int vf_vmatch_r(bool first, int a, int b){ return fcppt::variant::match(first ? var{trk{a}} : var{b}, [](trk &&t){ trk k{std::move(t)}; return k.get(); }, [](int x){ return x; }); }
int vf_vtoopt_r(bool first, int a, int b){ auto r = fcppt::variant::to_optional<trk>(first ? var{trk{a}} : var{b}); return idof(r); }
int vf_vtoopt_l(bool first, int a, int b, int *st){ var x{first ? var{trk{a}} : var{b}}; vf_mark(); auto r = fcppt::variant::to_optional<trk>(x); *st = first ? (std::get<trk>(x.impl()).moved_from ? 2 : 1) : 0; return idof(r); }
int vf_vmatch_l(bool first, int a, int b, int *st){ var x{first ? var{trk{a}} : var{b}}; vf_mark(); int const r = fcppt::variant::match(x, [](trk const &t){ return t.get(); }, [](int v){ return v; }); *st = first ? (std::get<trk>(x.impl()).moved_from ? 2 : 1) : 0; return r; }
// ---- fixed-size containers
void vf_amap_r(int a, int b, int *out){ auto r = fcppt::array::map(fcppt::array::object<trk, 2>{trk{a}, trk{b}}, [](trk &&t){ return trk{std::move(t)}; }); out[0] = fcppt::array::get<0>(r).get(); out[1] = fcppt::array::get<1>(r).get(); }
void vf_amap_l(int a, int b, int *out, int *st){ fcppt::array::object<trk, 2> x{trk{a}, trk{b}}; vf_mark(); auto r = fcppt::array::map(x, [](trk const &t){ return t.get() + 1000; }); out[0] = fcppt::array::get<0>(r); out[1] = fcppt::array::get<1>(r); st[0] = fcppt::array::get<0>(x).moved_from; st[1] = fcppt::array::get<1>(x).moved_from; }
void vf_tmap_r(int a, int b, int *out){ auto r = fcppt::tuple::map(fcppt::tuple::object<trk, trk>{trk{a}, trk{b}}, [](trk &&t){ return trk{std::move(t)}; }); out[0] = fcppt::tuple::get<0>(r).get(); out[1] = fcppt::tuple::get<1>(r).get(); }
}
