// C05 shim (fixed-arity containers): array / tuple / record combinators on the instrumented element type, each with rvalue (_r)
// and lvalue (_l) arguments. Results are reported as element ids, the state of lvalue sources as moved_from flags.
#include <fcppt/array/object.hpp>
#include <fcppt/array/append.hpp>
#include <fcppt/array/join.hpp>
#include <fcppt/array/push_back.hpp>
#include <fcppt/array/from_range.hpp>
#include <fcppt/array/apply.hpp>
#include <fcppt/array/get.hpp>
#include <fcppt/tuple/object.hpp>
#include <fcppt/tuple/push_back.hpp>
#include <fcppt/tuple/concat.hpp>
#include <fcppt/tuple/apply.hpp>
#include <fcppt/tuple/invoke.hpp>
#include <fcppt/tuple/from_array.hpp>
#include <fcppt/tuple/get.hpp>
#include <fcppt/record/object.hpp>
#include <fcppt/record/element.hpp>
#include <fcppt/record/get.hpp>
#include <fcppt/record/make_label.hpp>
#include <fcppt/record/permute.hpp>
#include <fcppt/record/multiply_disjoint.hpp>
#include <fcppt/record/map.hpp>
#include <fcppt/record/init.hpp>
#include <fcppt/optional/object.hpp>
#include <cstddef>
#include <utility>
extern "C" { void vf_mark(void); void vf_trk_copy(int id); void vf_trk_move(int id); void vf_trk_read_moved(int id); void vf_trk_assign_over(int id); }
struct trk {
  int id; bool moved_from;
  explicit trk(int i) : id(i), moved_from(false) {}
  trk(trk const &o) : id(o.id), moved_from(false) { if (o.moved_from) vf_trk_read_moved(o.id); vf_trk_copy(o.id); }
  trk(trk &&o) noexcept : id(o.id), moved_from(false) { if (o.moved_from) vf_trk_read_moved(o.id); o.moved_from = true; vf_trk_move(o.id); }
  trk &operator=(trk const &o) { if (o.moved_from) vf_trk_read_moved(o.id); vf_trk_assign_over(id); id = o.id; moved_from = false; vf_trk_copy(o.id); return *this; }
  trk &operator=(trk &&o) noexcept { if (o.moved_from) vf_trk_read_moved(o.id); vf_trk_assign_over(id); id = o.id; moved_from = false; o.moved_from = true; vf_trk_move(o.id); return *this; }
  int get() const { if (moved_from) vf_trk_read_moved(id); return id; }
};
namespace a = fcppt::array; namespace t = fcppt::tuple; namespace r = fcppt::record;
using arr1 = a::object<trk, 1>; using arr2 = a::object<trk, 2>; using arr3 = a::object<trk, 3>; using arr4 = a::object<trk, 4>;
template <typename A> static void puta(A const &x, int *out){ for (std::size_t i = 0; i < x.size(); ++i) out[i] = x.get_unsafe(i).moved_from ? -2 : x.get_unsafe(i).id; }
template <typename A> static void sta(A const &x, int *st){ for (std::size_t i = 0; i < x.size(); ++i) st[i] = x.get_unsafe(i).moved_from ? 1 : 0; }
FCPPT_RECORD_MAKE_LABEL(la);
FCPPT_RECORD_MAKE_LABEL(lb);
FCPPT_RECORD_MAKE_LABEL(lc);
using rec_ab = r::object<r::element<la, trk>, r::element<lb, trk>>;
using rec_ba = r::object<r::element<lb, trk>, r::element<la, trk>>;
using rec_c = r::object<r::element<lc, trk>>;
// fixed-capacity random-access source for from_range
struct span3 { using value_type = trk; using size_type = std::size_t; using difference_type = std::ptrdiff_t; using reference = trk &; using const_reference = trk const &; using iterator = trk *; using const_iterator = trk const *;
  trk d[3]; std::size_t n; iterator begin() { return d; } iterator end() { return d + n; } const_iterator begin() const { return d; } const_iterator end() const { return d + n; } size_type size() const { return n; }
  trk &operator[](std::size_t i) { return d[i]; } trk const &operator[](std::size_t i) const { return d[i]; } };
extern "C" {
// ---- array::append / join / push_back (append / join / push_back with an lvalue FIRST array, tuple::concat with any lvalue and record::map on an lvalue record
// do not compile on the pinned tree - array::size<Array1> / is_object<Tuples> / map_result<Record> are applied to the reference type - so only the forms that compile are here)
void vf_aappend_rr(int a0, int a1, int b0, int *out){ arr2 x{trk{a0}, trk{a1}}; arr1 y{trk{b0}}; vf_mark(); arr3 z{a::append(std::move(x), std::move(y))}; puta(z, out); }
void vf_aappend_rl(int a0, int a1, int b0, int *out, int *st){ arr2 x{trk{a0}, trk{a1}}; arr1 y{trk{b0}}; vf_mark(); arr3 z{a::append(std::move(x), y)}; puta(z, out); sta(y, st); }
void vf_ajoin_r(int a0, int a1, int b0, int c0, int *out){ arr2 x{trk{a0}, trk{a1}}; arr1 y{trk{b0}}; arr1 w{trk{c0}}; vf_mark(); arr4 z{a::join(std::move(x), std::move(y), std::move(w))}; puta(z, out); }
void vf_ajoin_mixed(int a0, int a1, int b0, int c0, int *out, int *st){ arr2 x{trk{a0}, trk{a1}}; arr1 y{trk{b0}}; arr1 w{trk{c0}}; vf_mark(); arr4 z{a::join(std::move(x), y, std::move(w))}; puta(z, out); sta(y, st); }
void vf_apush_rr(int a0, int a1, int b0, int *out){ arr2 x{trk{a0}, trk{a1}}; trk e{b0}; vf_mark(); arr3 z{a::push_back(std::move(x), std::move(e))}; puta(z, out); }
// ---- array::from_range (size 2) from a symbolic-size source
bool vf_afrom_r(std::size_t n, int a0, int a1, int a2, int *out){ span3 c{{trk{a0}, trk{a1}, trk{a2}}, n}; vf_mark(); auto z = a::from_range<2>(std::move(c)); if (z.has_value()) puta(z.get_unsafe(), out); return z.has_value(); }
bool vf_afrom_l(std::size_t n, int a0, int a1, int a2, int *out, int *st){ span3 c{{trk{a0}, trk{a1}, trk{a2}}, n}; vf_mark(); auto z = a::from_range<2>(c); if (z.has_value()) puta(z.get_unsafe(), out); for (int i = 0; i < 3; ++i) st[i] = c.d[i].moved_from ? 1 : 0; return z.has_value(); }
// ---- array::apply (binary) on rvalue arrays
void vf_aapply_r(int a0, int a1, int b0, int b1, int *out){ arr2 x{trk{a0}, trk{a1}}; arr2 y{trk{b0}, trk{b1}}; vf_mark(); auto z = a::apply([](trk &&p, trk &&q){ trk k{std::move(q)}; return trk{std::move(p)}; }, std::move(x), std::move(y)); puta(z, out); }
// ---- tuple::push_back / concat / from_array / invoke
void vf_tpush_rr(int a0, int a1, int b0, int *out){ t::object<trk, trk> x{trk{a0}, trk{a1}}; trk e{b0}; vf_mark(); auto z = t::push_back(std::move(x), std::move(e)); out[0] = t::get<0>(z).get(); out[1] = t::get<1>(z).get(); out[2] = t::get<2>(z).get(); }
void vf_tpush_ll(int a0, int a1, int b0, int *out, int *st){ t::object<trk, trk> x{trk{a0}, trk{a1}}; trk e{b0}; vf_mark(); auto z = t::push_back(x, e); out[0] = t::get<0>(z).get(); out[1] = t::get<1>(z).get(); out[2] = t::get<2>(z).get(); st[0] = t::get<0>(x).moved_from; st[1] = t::get<1>(x).moved_from; st[2] = e.moved_from; }
void vf_tconcat_rr(int a0, int a1, int b0, int *out){ t::object<trk, trk> x{trk{a0}, trk{a1}}; t::object<trk> y{trk{b0}}; vf_mark(); auto z = t::concat(std::move(x), std::move(y)); out[0] = t::get<0>(z).get(); out[1] = t::get<1>(z).get(); out[2] = t::get<2>(z).get(); }
void vf_tfrom_array_r(int a0, int a1, int *out){ arr2 x{trk{a0}, trk{a1}}; vf_mark(); auto z = t::from_array(std::move(x)); out[0] = t::get<0>(z).get(); out[1] = t::get<1>(z).get(); }
void vf_tfrom_array_l(int a0, int a1, int *out, int *st){ arr2 x{trk{a0}, trk{a1}}; vf_mark(); auto z = t::from_array(x); out[0] = t::get<0>(z).get(); out[1] = t::get<1>(z).get(); sta(x, st); }
int vf_tinvoke_r(int a0, int a1){ t::object<trk, trk> x{trk{a0}, trk{a1}}; vf_mark(); return t::invoke([](trk &&p, trk &&q){ trk k{std::move(p)}; trk l{std::move(q)}; return k.get() * 8 + l.get(); }, std::move(x)); }
// ---- record::permute / multiply_disjoint / map
void vf_rpermute_r(int a0, int b0, int *out){ rec_ab x{la{} = trk{a0}, lb{} = trk{b0}}; vf_mark(); rec_ba z{r::permute<rec_ba>(std::move(x))}; out[0] = r::get<la>(z).get(); out[1] = r::get<lb>(z).get(); }
void vf_rpermute_l(int a0, int b0, int *out, int *st){ rec_ab x{la{} = trk{a0}, lb{} = trk{b0}}; vf_mark(); rec_ba z{r::permute<rec_ba>(x)}; out[0] = r::get<la>(z).get(); out[1] = r::get<lb>(z).get(); st[0] = r::get<la>(x).moved_from; st[1] = r::get<lb>(x).moved_from; }
void vf_rmul_rr(int a0, int b0, int c0, int *out){ rec_ab x{la{} = trk{a0}, lb{} = trk{b0}}; rec_c y{lc{} = trk{c0}}; vf_mark(); auto z = r::multiply_disjoint(std::move(x), std::move(y)); out[0] = r::get<la>(z).get(); out[1] = r::get<lb>(z).get(); out[2] = r::get<lc>(z).get(); }
void vf_rmul_ll(int a0, int b0, int c0, int *out, int *st){ rec_ab x{la{} = trk{a0}, lb{} = trk{b0}}; rec_c y{lc{} = trk{c0}}; vf_mark(); auto z = r::multiply_disjoint(x, y); out[0] = r::get<la>(z).get(); out[1] = r::get<lb>(z).get(); out[2] = r::get<lc>(z).get(); st[0] = r::get<la>(x).moved_from; st[1] = r::get<lb>(x).moved_from; st[2] = r::get<lc>(y).moved_from; }
void vf_rmul_rl(int a0, int b0, int c0, int *out, int *st){ rec_ab x{la{} = trk{a0}, lb{} = trk{b0}}; rec_c y{lc{} = trk{c0}}; vf_mark(); auto z = r::multiply_disjoint(std::move(x), y); out[0] = r::get<la>(z).get(); out[1] = r::get<lb>(z).get(); out[2] = r::get<lc>(z).get(); st[0] = r::get<lc>(y).moved_from; }
void vf_rmul_lr(int a0, int b0, int c0, int *out, int *st){ rec_ab x{la{} = trk{a0}, lb{} = trk{b0}}; rec_c y{lc{} = trk{c0}}; vf_mark(); auto z = r::multiply_disjoint(x, std::move(y)); out[0] = r::get<la>(z).get(); out[1] = r::get<lb>(z).get(); out[2] = r::get<lc>(z).get(); st[0] = r::get<la>(x).moved_from; st[1] = r::get<lb>(x).moved_from; }
void vf_rmap_r(int a0, int b0, int *out){ rec_ab x{la{} = trk{a0}, lb{} = trk{b0}}; vf_mark(); auto z = r::map(std::move(x), [](trk &&v){ return trk{std::move(v)}; }); out[0] = r::get<la>(z).get(); out[1] = r::get<lb>(z).get(); }
}
