// C05 shim (containers): generic range algorithms on a fixed-capacity container of the instrumented element type
// (capacity 4, symbolic size, no heap). Moving a fixtrk moves its elements one by one (unlike std::vector, which steals
// the buffer), so the contracts speak of copies, reads after move, order and multiplicity - not of the number of moves.
#include <fcppt/algorithm/map.hpp>
#include <fcppt/algorithm/fold.hpp>
#include <fcppt/algorithm/map_concat.hpp>
#include <fcppt/container/join.hpp>
#include <fcppt/container/pop_back.hpp>
#include <fcppt/move_clear.hpp>
#include <fcppt/container/get_or_insert.hpp>
#include <fcppt/container/get_or_insert_with_result.hpp>
#include <fcppt/optional/object.hpp>
#include <fcppt/optional/cat.hpp>
#include <fcppt/optional/sequence.hpp>
#include <fcppt/either/object.hpp>
#include <fcppt/either/sequence.hpp>
#include <cstddef>
#include <iterator>
#include <utility>
extern "C" { void vf_mark(void); void vf_trk_copy(int id); void vf_trk_move(int id); void vf_trk_read_moved(int id); void vf_trk_assign_over(int id); }
struct trk {
  int id; bool moved_from;
  explicit trk(int i) : id(i), moved_from(false) {}
  trk(trk const &o) : id(o.id), moved_from(false) { if (o.moved_from) vf_trk_read_moved(o.id); vf_trk_copy(o.id); }
  trk(trk &&o) noexcept : id(o.id), moved_from(false) { if (o.moved_from) vf_trk_read_moved(o.id); o.moved_from = true; vf_trk_move(o.id); }
  trk &operator=(trk const &o) { if (o.moved_from) vf_trk_read_moved(o.id); vf_trk_assign_over(id); id = o.id; moved_from = false; vf_trk_copy(o.id); return *this; }
  trk &operator=(trk &&o) noexcept { if (o.moved_from) vf_trk_read_moved(o.id); vf_trk_assign_over(id); id = o.id; moved_from = false; o.moved_from = true; vf_trk_move(o.id); return *this; }
  int get() const { if (moved_from) vf_trk_read_moved(id); return id; }
};
struct trkn {   // like trk, but the move operations are not noexcept: generic code that uses move_if_noexcept would COPY it
  int id; bool moved_from;
  explicit trkn(int i) : id(i), moved_from(false) {}
  trkn(trkn const &o) : id(o.id), moved_from(false) { if (o.moved_from) vf_trk_read_moved(o.id); vf_trk_copy(o.id); }
  trkn(trkn &&o) : id(o.id), moved_from(false) { if (o.moved_from) vf_trk_read_moved(o.id); o.moved_from = true; vf_trk_move(o.id); }
  trkn &operator=(trkn const &o) { if (o.moved_from) vf_trk_read_moved(o.id); vf_trk_assign_over(id); id = o.id; moved_from = false; vf_trk_copy(o.id); return *this; }
  trkn &operator=(trkn &&o) { if (o.moved_from) vf_trk_read_moved(o.id); vf_trk_assign_over(id); id = o.id; moved_from = false; o.moved_from = true; vf_trk_move(o.id); return *this; }
  int get() const { if (moved_from) vf_trk_read_moved(id); return id; }
};
template <typename trk> struct fixt {
  using value_type = trk; using size_type = std::size_t; using difference_type = std::ptrdiff_t; using reference = trk &; using const_reference = trk const &;
  using iterator = trk *; using const_iterator = trk const *; using pointer = trk *; using const_pointer = trk const *;
  trk d[4]; std::size_t n;   // slots >= n hold placeholders that are only ever assigned over
  fixt() : d{trk{-1}, trk{-1}, trk{-1}, trk{-1}}, n(0) {}
  fixt(fixt const &o) : fixt() { for (std::size_t i = 0; i < 4 && i < o.n; ++i) d[i] = o.d[i]; n = o.n; }
  fixt(fixt &&o) noexcept : fixt() { for (std::size_t i = 0; i < 4 && i < o.n; ++i) d[i] = std::move(o.d[i]); n = o.n; o.n = 0; }
  fixt &operator=(fixt const &o) { if (this != &o) { for (std::size_t i = 0; i < 4 && i < o.n; ++i) d[i] = o.d[i]; n = o.n; } return *this; }
  fixt &operator=(fixt &&o) noexcept { if (this != &o) { for (std::size_t i = 0; i < 4 && i < o.n; ++i) d[i] = std::move(o.d[i]); n = o.n; o.n = 0; } return *this; }
  iterator begin() { return d; } iterator end() { return d + n; } const_iterator begin() const { return d; } const_iterator end() const { return d + n; }
  size_type size() const { return n; } bool empty() const { return n == 0; } void reserve(size_type) {}
  reference back() { return d[n - 1]; } void pop_back() { --n; }
  void push_back(trk const &v) { d[n++] = v; } void push_back(trk &&v) { d[n++] = std::move(v); }
  iterator insert(const_iterator, trk const &v) { d[n] = v; return d + n++; }          // only ever called with end()
  iterator insert(const_iterator, trk &&v) { d[n] = std::move(v); return d + n++; }
  template <typename It> iterator insert(const_iterator, It first, It last) { std::size_t const at = n; for (; first != last; ++first) { d[n++] = *first; } return d + at; }
};
using fixtrk = fixt<trk>; using fixtrkn = fixt<trkn>;
static fixtrk mk(std::size_t n, int a0, int a1, int a2){ fixtrk c; if (n > 0) c.push_back(trk{a0}); if (n > 1) c.push_back(trk{a1}); if (n > 2) c.push_back(trk{a2}); return c; }
static void put(fixtrk const &c, std::size_t *on, int *ids){ *on = c.n; for (std::size_t i = 0; i < 4 && i < c.n; ++i) ids[i] = c.d[i].moved_from ? -2 : c.d[i].id; }   // -2 marks a moved-from element
#define SRC std::size_t n, int a0, int a1, int a2
extern "C" {
void vf_cmap_r(SRC, std::size_t *on, int *ids){ fixtrk c{mk(n, a0, a1, a2)}; vf_mark(); fixtrk r{fcppt::algorithm::map<fixtrk>(std::move(c), [](trk &&t){ return trk{std::move(t)}; })}; put(r, on, ids); }
void vf_cmap_l(SRC, std::size_t *on, int *ids, std::size_t *sn, int *sids){ fixtrk c{mk(n, a0, a1, a2)}; vf_mark(); fixtrk r{fcppt::algorithm::map<fixtrk>(c, [](trk const &t){ return trk{t.get() + 1000}; })}; put(r, on, ids); put(c, sn, sids); }
unsigned vf_cfold_r(SRC){ fixtrk c{mk(n, a0, a1, a2)}; vf_mark(); return fcppt::algorithm::fold(std::move(c), 1U, [](trk &t, unsigned s){ trk k{std::move(t)}; return s * 8U + static_cast<unsigned>(k.get()); }); }
unsigned vf_cfold_l(SRC, std::size_t *sn, int *sids){ fixtrk c{mk(n, a0, a1, a2)}; vf_mark(); unsigned const r = fcppt::algorithm::fold(c, 1U, [](trk const &t, unsigned s){ return s * 8U + static_cast<unsigned>(t.get()); }); put(c, sn, sids); return r; }
void vf_cmap_concat(SRC, std::size_t *on, int *ids){ fixtrk c{mk(n, a0, a1, a2)}; vf_mark(); fixtrk r{fcppt::algorithm::map_concat<fixtrk>(c, [](trk &t){ fixtrk one; one.push_back(std::move(t)); return one; })}; put(r, on, ids); }
#define TWO std::size_t n1, int a0, int a1, std::size_t n2, int b0, int b1
void vf_cjoin_rr(TWO, std::size_t *on, int *ids){ fixtrk x{mk(n1, a0, a1, 0)}, y{mk(n2, b0, b1, 0)}; vf_mark(); fixtrk r{fcppt::container::join(std::move(x), std::move(y))}; put(r, on, ids); }
void vf_cjoin_ll(TWO, std::size_t *on, int *ids, std::size_t *xn, int *xids, std::size_t *yn, int *yids){ fixtrk x{mk(n1, a0, a1, 0)}, y{mk(n2, b0, b1, 0)}; vf_mark(); fixtrk r{fcppt::container::join(x, y)}; put(r, on, ids); put(x, xn, xids); put(y, yn, yids); }
void vf_cjoin_rl(TWO, std::size_t *on, int *ids, std::size_t *yn, int *yids){ fixtrk x{mk(n1, a0, a1, 0)}, y{mk(n2, b0, b1, 0)}; vf_mark(); fixtrk r{fcppt::container::join(std::move(x), y)}; put(r, on, ids); put(y, yn, yids); }
void vf_cjoin_lr(TWO, std::size_t *on, int *ids, std::size_t *xn, int *xids){ fixtrk x{mk(n1, a0, a1, 0)}, y{mk(n2, b0, b1, 0)}; vf_mark(); fixtrk r{fcppt::container::join(x, std::move(y))}; put(r, on, ids); put(x, xn, xids); }
int vf_cpop_back_ne(SRC, std::size_t *sn, int *sids){ fixtrkn c; if (n > 0) c.push_back(trkn{a0}); if (n > 1) c.push_back(trkn{a1}); if (n > 2) c.push_back(trkn{a2}); vf_mark(); fcppt::optional::object<trkn> r{fcppt::container::pop_back(c)};
  *sn = c.n; for (std::size_t i = 0; i < 4 && i < c.n; ++i) sids[i] = c.d[i].moved_from ? -2 : c.d[i].id; return r.has_value() ? r.get_unsafe().get() : -1; }
int vf_cpop_back(SRC, std::size_t *sn, int *sids){ fixtrk c{mk(n, a0, a1, a2)}; vf_mark(); fcppt::optional::object<trk> r{fcppt::container::pop_back(c)}; put(c, sn, sids); return r.has_value() ? r.get_unsafe().get() : -1; }
void vf_cmove_clear(SRC, std::size_t *on, int *ids, std::size_t *sn){ fixtrk c{mk(n, a0, a1, a2)}; vf_mark(); fixtrk r{fcppt::move_clear(c)}; put(r, on, ids); *sn = c.size(); }
// ---- optional::cat / optional::sequence / either::sequence: fixed-capacity sources of optionals / eithers of the instrumented type
struct ftrk { int id; explicit ftrk(int i) : id(i) {} ftrk(ftrk const &o) : id(o.id) { vf_trk_copy(o.id); } ftrk(ftrk &&o) noexcept : id(o.id) { vf_trk_move(o.id); } ftrk &operator=(ftrk const &) = delete; };
using otrk = fcppt::optional::object<trk>; using etrk = fcppt::either::object<ftrk, trk>;
struct fixopt { using value_type = otrk; using size_type = std::size_t; using difference_type = std::ptrdiff_t; using reference = otrk &; using const_reference = otrk const &; using iterator = otrk *; using const_iterator = otrk const *;
  otrk d[3]; std::size_t n; iterator begin() { return d; } iterator end() { return d + n; } const_iterator begin() const { return d; } const_iterator end() const { return d + n; } size_type size() const { return n; } };
struct fixeit { using value_type = etrk; using size_type = std::size_t; using difference_type = std::ptrdiff_t; using reference = etrk &; using const_reference = etrk const &; using iterator = etrk *; using const_iterator = etrk const *;
  etrk d[3]; std::size_t n; iterator begin() { return d; } iterator end() { return d + n; } const_iterator begin() const { return d; } const_iterator end() const { return d + n; } size_type size() const { return n; } };
#define OSRC std::size_t n, bool h0, int a0, bool h1, int a1, bool h2, int a2
#define MKO fixopt c{{h0 ? otrk{trk{a0}} : otrk{}, h1 ? otrk{trk{a1}} : otrk{}, h2 ? otrk{trk{a2}} : otrk{}}, n}
#define MKE fixeit c{{h0 ? etrk{trk{a0}} : etrk{ftrk{a0}}, h1 ? etrk{trk{a1}} : etrk{ftrk{a1}}, h2 ? etrk{trk{a2}} : etrk{ftrk{a2}}}, n}
static void puto(fixopt const &c, int *st){ for (std::size_t i = 0; i < 3; ++i) st[i] = c.d[i].has_value() ? (c.d[i].get_unsafe().moved_from ? 2 : 1) : 0; }
void vf_ccat_r(OSRC, std::size_t *on, int *ids){ MKO; vf_mark(); fixtrk r{fcppt::optional::cat<fixtrk>(std::move(c))}; put(r, on, ids); }
void vf_ccat_l(OSRC, std::size_t *on, int *ids, int *st){ MKO; vf_mark(); fixtrk r{fcppt::optional::cat<fixtrk>(c)}; put(r, on, ids); puto(c, st); }
bool vf_cseq_r(OSRC, std::size_t *on, int *ids){ MKO; vf_mark(); fcppt::optional::object<fixtrk> r{fcppt::optional::sequence<fixtrk>(std::move(c))}; if (r.has_value()) put(r.get_unsafe(), on, ids); return r.has_value(); }
bool vf_cseq_l(OSRC, std::size_t *on, int *ids, int *st){ MKO; vf_mark(); fcppt::optional::object<fixtrk> r{fcppt::optional::sequence<fixtrk>(c)}; if (r.has_value()) put(r.get_unsafe(), on, ids); puto(c, st); return r.has_value(); }
bool vf_ceseq_r(OSRC, std::size_t *on, int *ids, int *fail){ MKE; vf_mark(); fcppt::either::object<ftrk, fixtrk> r{fcppt::either::sequence<fixtrk>(std::move(c))}; if (r.has_success()) put(r.get_success_unsafe(), on, ids); else *fail = r.get_failure_unsafe().id; return r.has_success(); }
}
// ---- get_or_insert on a fixed-capacity map int -> instrumented value (unsorted slots, capacity 3)
struct fixtmap { using key_type = int; using mapped_type = trk; using value_type = std::pair<int, trk>; using size_type = std::size_t; using iterator = value_type *; using const_iterator = value_type const *;
  value_type d[3]; std::size_t n;
  iterator begin() { return d; } iterator end() { return d + n; } const_iterator begin() const { return d; } const_iterator end() const { return d + n; }
  iterator find(int k) { for (std::size_t i = 0; i < 3 && i < n; ++i) if (d[i].first == k) return d + i; return d + n; }
  const_iterator find(int k) const { for (std::size_t i = 0; i < 3 && i < n; ++i) if (d[i].first == k) return d + i; return d + n; }
  template <typename M> std::pair<iterator, bool> emplace(int k, M &&m) { iterator const it = find(k); if (it != end()) return {it, false}; d[n].first = k; d[n].second = std::forward<M>(m); return {d + n++, true}; } };
extern "C" {
int vf_cget_or_insert(std::size_t n, int k0, int a0, int k1, int a1, int key, int fresh, bool *inserted, std::size_t *on, int *ids){
  fixtmap c{{{k0, trk{a0}}, {k1, trk{a1}}, {0, trk{-1}}}, n}; vf_mark();
  auto const r = fcppt::container::get_or_insert_with_result(c, key, [fresh](int){ return trk{fresh}; });
  *inserted = r.inserted(); int const got = r.element().moved_from ? -2 : r.element().id; *on = c.n; for (std::size_t i = 0; i < 3 && i < c.n; ++i) ids[i] = c.d[i].second.moved_from ? -2 : c.d[i].second.id; return got; }
}
