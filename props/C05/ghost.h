/* C05 ghost state: per-id copy / move counters of the instrumented element type */
static unsigned n_copy[8], n_move[8], c_copy, c_move, c_readmoved;
static unsigned m_copy, m_move, m_readmoved, m_ncopy[8], m_nmove[8];   /* counters at the mark (after the arguments were set up) */
