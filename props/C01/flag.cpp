// C01 shim: options::impl::is_flag over every string of 1..3 characters held in a buffer of EXACTLY that size
// (so that any read beyond the string is a pointer-check obligation), plus the empty string
#include <fcppt/options/impl/is_flag.hpp>
#include <fcppt/string_view.hpp>
static int conv(fcppt::string_view const v, char *name, unsigned *namelen){
  auto const r = fcppt::options::impl::is_flag(v);
  if (!r.has_value()) return 0;
  auto const &p = r.get_unsafe(); *namelen = static_cast<unsigned>(p.second.size());
  for (unsigned i = 0; i < 3 && i < p.second.size(); ++i) name[i] = p.second[i];
  return p.first.get() ? 1 : 2;     // 1 short flag, 2 long flag
}
extern "C" int vf_is_flag(char const *buf, unsigned len, char *name, unsigned *namelen){ return conv(fcppt::string_view{buf, len}, name, namelen); }
extern "C" int vf_is_flag_empty(char *name, unsigned *namelen){ return conv(fcppt::string_view{}, name, namelen); }
