// C01 shim: fcppt::args_from_second for argument vectors of length 0, 1, 2 (one job each; arguments of at most one character)
#include <fcppt/args_from_second.hpp>
#include <fcppt/args_vector.hpp>
static int run(int argc, char const *const *argv, char *o0){
  fcppt::args_vector const r = fcppt::args_from_second(argc, argv);
  if (r.size() >= 1) *o0 = r[0].empty() ? 0 : r[0][0];
  return static_cast<int>(r.size());
}
extern "C" int vf_args0(char *o0){ char const *argv[1] = {nullptr}; return run(0, argv, o0); }
extern "C" int vf_args1(char c0, char *o0){ char s0[2] = {c0, 0}; char const *argv[2] = {s0, nullptr}; return run(1, argv, o0); }
extern "C" int vf_args2(char c0, char c1, char *o0){ char s0[2] = {c0, 0}; char s1[2] = {c1, 0}; char const *argv[3] = {s0, s1, nullptr}; return run(2, argv, o0); }
