// C01 shim: the generic container helpers over a fixed-capacity container with a SYMBOLIC size (no heap), runtime_index, array::from_range
#include <fcppt/container/at_optional.hpp>
#include <fcppt/container/maybe_front.hpp>
#include <fcppt/container/maybe_back.hpp>
#include <fcppt/container/pop_back.hpp>
#include <fcppt/runtime_index.hpp>
#include <fcppt/array/from_range.hpp>
#include <fcppt/array/get.hpp>
#include <cstddef>
#include <type_traits>
struct span3 {
  using value_type = int; using size_type = std::size_t; using reference = int &; using const_reference = int const &; using iterator = int *; using const_iterator = int const *;
  using difference_type = std::ptrdiff_t; using pointer = int *; using const_pointer = int const *;
  int d[3]; std::size_t n;
  iterator begin() { return d; } iterator end() { return d + n; } const_iterator begin() const { return d; } const_iterator end() const { return d + n; }
  size_type size() const { return n; } bool empty() const { return n == 0; }
  reference front() { return d[0]; } reference back() { return d[n - 1]; } void pop_back() { --n; }
  reference operator[](size_type i) { return d[i]; } const_reference operator[](size_type i) const { return d[i]; }
};
extern "C" {
unsigned vf_ri_hook(unsigned i);
bool vf_at_optional(int a0, int a1, int a2, std::size_t n, std::size_t idx, int *out){ span3 c{{a0, a1, a2}, n}; auto const r = fcppt::container::at_optional(c, idx); if (r.has_value()) { *out = r.get_unsafe().get(); return true; } return false; }
bool vf_maybe_front(int a0, int a1, int a2, std::size_t n, int *out){ span3 c{{a0, a1, a2}, n}; auto const r = fcppt::container::maybe_front(c); if (r.has_value()) { *out = r.get_unsafe().get(); return true; } return false; }
bool vf_maybe_back(int a0, int a1, int a2, std::size_t n, int *out){ span3 c{{a0, a1, a2}, n}; auto const r = fcppt::container::maybe_back(c); if (r.has_value()) { *out = r.get_unsafe().get(); return true; } return false; }
bool vf_pop_back(int a0, int a1, int a2, std::size_t n, int *out, std::size_t *newn){ span3 c{{a0, a1, a2}, n}; auto const r = fcppt::container::pop_back(c); *newn = c.size(); if (r.has_value()) { *out = r.get_unsafe(); return true; } return false; }
unsigned vf_runtime_index(unsigned idx){ return fcppt::runtime_index<std::integral_constant<unsigned, 5>>(idx, [](auto const i){ return vf_ri_hook(decltype(i)::value); }, []{ return 1000U; }); }
bool vf_from_range(int a0, int a1, int a2, std::size_t n, int *out){ span3 c{{a0, a1, a2}, n}; auto const r = fcppt::array::from_range<2>(c); if (r.has_value()) { out[0] = fcppt::array::get<0>(r.get_unsafe()); out[1] = fcppt::array::get<1>(r.get_unsafe()); return true; } return false; }
}
