"""C01 - the safe API is total: no UB, no hang, failure only via optional/either.

Every job is a function contract whose postcondition is the failure channel ("has a value exactly for the inputs the
documentation accepts") and whose obligation set contains every potentially-undefined operation of the compiled code
(signed overflow, shift, division, unreachable, dereference, free), every throw/terminate site, and termination
(loop contract with decreases, or unwinding assertions). The registry reuses the C06 units (math helpers, truncation_check,
from_int): a change that introduces UB there fails here as well.
"""
import importlib.util, os
from vf.plan import Plan


def c06():
    p = os.path.join(os.path.dirname(os.path.dirname(os.path.abspath(__file__))), 'C06', 'plan.py')
    spec = importlib.util.spec_from_file_location('plan_C06_for_C01', p)
    m = importlib.util.module_from_spec(spec)
    spec.loader.exec_module(m)
    return m


def make(tier):
    P = Plan('C01', level='proof', design_ref='DESIGN.md section 5 C01')
    P.not_decided += ['cast::dynamic (RTTI __dynamic_cast external)', 'extract_from_string_locale, io::stream_to_string, read_chars, codecvt, filesystem/*, options::parse, parse::phrase_parse_string (iostream / locale / OS machine code)',
                      'next_arg (std::set lookup: _Rb_tree externals)', 'functions on std::vector/std::list storage other than the bounded jobs listed']
    m = c06()
    q = m.make(tier)
    # adopt the C06 units (math, tc, enum): same shims, same contracts, obligations include every UB site and termination
    for u in q.units:
        u.plan = P
        P.units.append(u)
    P.generated.update(q.generated)
    fr = lambda p, n=4: '__CPROVER_is_fresh(%s, %d)' % (p, n)
    A = lambda i: 'a%d' % i
    sel = '(idx == 0 ? a0 : (idx == 1 ? a1 : a2))'
    spec = ''
    spec += 'function vf_at_optional\n  __CPROVER_requires(%s && n <= 3)\n  __CPROVER_assigns(*out)\n  __CPROVER_ensures(__CPROVER_return_value == (idx < n))\n  __CPROVER_ensures(VF_IMP(__CPROVER_return_value, *out == %s))\n' % (fr('out'), sel)
    spec += 'function vf_maybe_front\n  __CPROVER_requires(%s && n <= 3)\n  __CPROVER_assigns(*out)\n  __CPROVER_ensures(__CPROVER_return_value == (n != 0) && VF_IMP(__CPROVER_return_value, *out == a0))\n' % fr('out')
    spec += 'function vf_maybe_back\n  __CPROVER_requires(%s && n <= 3)\n  __CPROVER_assigns(*out)\n  __CPROVER_ensures(__CPROVER_return_value == (n != 0) && VF_IMP(__CPROVER_return_value, *out == (n == 1 ? a0 : (n == 2 ? a1 : a2))))\n' % fr('out')
    spec += 'function vf_pop_back\n  __CPROVER_requires(%s && %s && n <= 3)\n  __CPROVER_assigns(*out, *newn)\n  __CPROVER_ensures(__CPROVER_return_value == (n != 0) && *newn == (n == 0 ? 0 : n - 1) && VF_IMP(__CPROVER_return_value, *out == (n == 1 ? a0 : (n == 2 ? a1 : a2))))\n' % (fr('out'), fr('newn', 8))
    spec += 'function vf_runtime_index\n  __CPROVER_assigns(c_ri, l_ri)\n  __CPROVER_ensures(__CPROVER_return_value == (idx < 5 ? __CPROVER_uninterpreted_ri(idx) : 1000) && c_ri == __CPROVER_old(c_ri) + (idx < 5 ? 1 : 0) && VF_IMP(idx < 5, l_ri == idx))\n'
    spec += 'function vf_from_range\n  __CPROVER_requires(%s && n <= 3)\n  __CPROVER_assigns(__CPROVER_object_whole(out))\n  __CPROVER_ensures(__CPROVER_return_value == (n == 2) && VF_IMP(__CPROVER_return_value, out[0] == a0 && out[1] == a1))\n' % fr('out', 8)
    P.generated['cont.spec'] = spec
    P.generated['cont_ghost.h'] = 'u32 __CPROVER_uninterpreted_ri(u32);\nstatic unsigned c_ri; static u32 l_ri;\n'
    P.generated['cont_h.c'] = 'u32 vf_ri_hook(u32 i){ ++c_ri; l_ri = i; return __CPROVER_uninterpreted_ri(i); }\n'
    u = P.unit('cont', 'cont.cpp', specs=['cont.spec'], harness=['cont_h.c'], pre=['cont_ghost.h'], inline=True)
    for f, what in (('vf_at_optional', 'container::at_optional: an element exactly for index < size, for EVERY index value (no out-of-bounds access)'),
                    ('vf_maybe_front', 'container::maybe_front: nothing for an empty container'), ('vf_maybe_back', 'container::maybe_back: nothing for an empty container'),
                    ('vf_pop_back', 'container::pop_back: nothing (and no change) for an empty container, otherwise the last element is removed and returned'),
                    ('vf_runtime_index', 'runtime_index: the function for index < Max (exactly once, with that index), the fail function otherwise, for every index value'),
                    ('vf_from_range', 'array::from_range<2>: an array exactly when the source has 2 elements')):
        u.contract(f, cls='P', backends=['sat', 'cvc5'], what=what + ' [container = fixed-capacity buffer with symbolic size 0..3]', native=False, timeout=600)
    # is_flag
    dash = lambda c: "((u8)%s == '-')" % c
    spec = 'function vf_is_flag\n  __CPROVER_requires(len >= 1 && len <= 3 && __CPROVER_is_fresh(buf, len) && __CPROVER_is_fresh(name, 3) && __CPROVER_is_fresh(namelen, 4))\n  __CPROVER_assigns(__CPROVER_object_whole(name), *namelen)\n'
    spec += '  __CPROVER_ensures(__CPROVER_return_value == (%s ? ((len >= 2 && %s) ? 2 : 1) : 0))\n' % (dash('buf[0]'), dash('buf[1]'))
    spec += '  __CPROVER_ensures(VF_IMP(__CPROVER_return_value == 1, *namelen == len - 1 && VF_IMP(len >= 2, name[0] == buf[1]) && VF_IMP(len >= 3, name[1] == buf[2])))\n'
    spec += '  __CPROVER_ensures(VF_IMP(__CPROVER_return_value == 2, *namelen == len - 2 && VF_IMP(len >= 3, name[0] == buf[2])))\n'
    spec += 'function vf_is_flag_empty\n  __CPROVER_requires(__CPROVER_is_fresh(name, 3) && __CPROVER_is_fresh(namelen, 4))\n  __CPROVER_assigns(__CPROVER_object_whole(name), *namelen)\n  __CPROVER_ensures(__CPROVER_return_value == 0)\n'
    P.generated['flag.spec'] = spec
    u = P.unit('flag', 'flag.cpp', specs=['flag.spec'], srcs=['libs/options/impl/src/options/impl/is_flag.cpp'], inline=True, maxb=16)
    for f in ('vf_is_flag', 'vf_is_flag_empty'):
        u.contract(f, cls='B', unwind=20, bound='every argument string of at most 3 characters (all character values) in a buffer of exactly its length, incl. the empty string and the lone dash', backends=['sat', 'cvc5'], timeout=900, native=False,
                   what='options::impl::is_flag: no flag unless the string starts with a dash; "-x.." is the short flag "x..", "--x.." the long flag "x.."; never reads outside the string (the lone "-" included)')
    spec = ''
    spec += 'function vf_args0\n  __CPROVER_requires(__CPROVER_is_fresh(o0, 1))\n  __CPROVER_assigns(*o0)\n  __CPROVER_ensures(__CPROVER_return_value == 0)\n'
    spec += 'function vf_args1\n  __CPROVER_requires(__CPROVER_is_fresh(o0, 1))\n  __CPROVER_assigns(*o0)\n  __CPROVER_ensures(__CPROVER_return_value == 0)\n'
    spec += 'function vf_args2\n  __CPROVER_requires(__CPROVER_is_fresh(o0, 1))\n  __CPROVER_assigns(*o0)\n  __CPROVER_ensures(__CPROVER_return_value == 1 && *o0 == c1)\n'
    P.generated['args.spec'] = spec
    u = P.unit('args', 'args.cpp', specs=['args.spec'], srcs=['libs/core/src/args_from_second.cpp', 'libs/core/src/args.cpp', 'libs/core/src/from_std_string.cpp'], inline=True, maxb=16)
    for f in ('vf_args0', 'vf_args1', 'vf_args2'):
        u.contract(f, cls='B', unwind=20, bound='argument vector of length %s, arguments of at most one character' % f[-1], backends=['sat', 'cvc5'], timeout=1800, native=False, tier='thorough' if f == 'vf_args2' else 'quick', optional=(f == 'vf_args2'),
                   what='args_from_second: everything after the program name, and an empty vector for argc == 0 (no access before/after argv)')
    return P
