"""C11 - intrusive list membership equals the set of live connections (list/base/iterator part)."""
from vf.plan import Plan


def make(tier):
    P = Plan('C11', level='model_checking', design_ref='DESIGN.md section 5 C11')
    P.meta += ['every operation touches at most 4 ring nodes (itself, its neighbours, the list head), so a universe of 4 elements + 2 heads with ARBITRARY well-formed linkage (all alias patterns, orphan rings, self-linked nodes) covers every configuration an operation can distinguish; induction over the history then gives the membership property for histories of any length']
    P.not_decided += ['fcppt::signal (connect / call / unregister through unique_ptr and std::function: heap + type erasure)']
    u = P.unit('list', 'shim.cpp', harness=['harness.c'], inline=True)
    for h, what in (('h_elem_ctor', 'base(list&): appended at the end of that list; other lists and untouched nodes unchanged; ring invariant'),
                    ('h_elem_dtor', '~base: the element leaves its list, order of the others kept, no live node refers to it'),
                    ('h_elem_unlink', 'unlink(): self-linked, in no list'),
                    ('h_elem_move_ctor', 'base(base&&): takes exactly the place of the source; the source is self-linked'),
                    ('h_elem_move_assign', 'base::operator=(base&&): leaves its old place, takes the place of the source; self-assignment is a no-op'),
                    ('h_list_ctor', 'list(): empty'), ('h_list_dtor', '~list: former members keep a consistent ring, none refers to the dead head'),
                    ('h_list_move_ctor', 'list(list&&) from empty and non-empty sources: takes over all members in order, source empty'),
                    ('h_list_move_assign', 'list::operator=(list&&) from empty and non-empty sources, onto empty and non-empty targets: holds exactly the source members, source empty, old members in no list, ring invariant'),
                    ('h_list_walk', 'begin/end/++/--/empty enumerate exactly the members in link order')):
        u.lemma(h, cls='B', unwind=8, bound='universe of 4 elements and 2 list heads with arbitrary well-formed linkage (every alias pattern); one operation from every such state', backends=['sat', 'cvc5'], native=False, what=what, timeout=900)
    return P
