"""C11 - intrusive list membership equals the set of live connections (list/base/iterator part)."""
from vf.plan import Plan


def make(tier):
    P = Plan('C11', level='model_checking', design_ref='DESIGN.md section 5 C11')
    P.meta += ['every operation touches at most 4 ring nodes (itself, its neighbours, the list head), so a universe of 4 elements + 2 heads with ARBITRARY well-formed linkage (all alias patterns, orphan rings, self-linked nodes) covers every configuration an operation can distinguish; induction over the history then gives the membership property for histories of any length']
    P.not_decided += ['signals with more than three connections, histories of several calls / reconnects (bounded scenarios only); auto_connection_container', 'signal::unregister::base (unregister function run exactly once at connection death): did not close (two connections: 8 GB / 8 min per concrete scenario; one connection observing its signal from inside the unregister function: 24 GB exhausted after 18 min)']
    u = P.unit('list', 'shim.cpp', harness=['harness.c'], inline=True)
    for h, what in (('h_elem_ctor', 'base(list&): appended at the end of that list; other lists and untouched nodes unchanged; ring invariant'),
                    ('h_elem_dtor', '~base: the element leaves its list, order of the others kept, no live node refers to it'),
                    ('h_elem_unlink', 'unlink(): self-linked, in no list'),
                    ('h_elem_move_ctor', 'base(base&&): takes exactly the place of the source; the source is self-linked'),
                    ('h_elem_move_assign', 'base::operator=(base&&): leaves its old place, takes the place of the source; self-assignment is a no-op'),
                    ('h_list_ctor', 'list(): empty'), ('h_list_dtor', '~list: former members keep a consistent ring, none refers to the dead head'),
                    ('h_list_move_ctor', 'list(list&&) from empty and non-empty sources: takes over all members in order, source empty'),
                    ('h_list_move_assign', 'list::operator=(list&&) from empty and non-empty sources, onto empty and non-empty targets: holds exactly the source members, source empty, old members in no list, ring invariant'),
                    ('h_list_walk', 'begin/end/++/--/empty enumerate exactly the members in link order')):
        u.lemma(h, cls='B', unwind=8, bound='universe of 4 elements and 2 list heads with arbitrary well-formed linkage (every alias pattern); one operation from every such state', backends=['sat', 'cvc5'], native=False, what=what, timeout=900)
    # ---- fcppt::signal on top of the intrusive list (bounded scenarios: three connections)
    hs = ('static unsigned c_cb; static u32 l_id[8], l_arg[8];\n'
          'void vf_cb(u32 id, u32 a){ if (c_cb < 8) { l_id[c_cb] = id; l_arg[c_cb] = a; } ++c_cb; }\n'
          '#define ALIVE_LOG(X) do { unsigned k = 0; for (unsigned id = 1; id <= 3; ++id) if (!((drop >> (id - 1)) & 1)) { __CPROVER_assert(k < c_cb && l_id[k] == id && l_arg[k] == (X), "every live connection is invoked, in connection order, with the argument"); ++k; } \\\n'
          '  __CPROVER_assert(c_cb == k, "no callback of a destroyed connection (and nothing else) is invoked"); } while (0)\n'
          'void h_sig_call(void){ VF_IN(u32, x); VF_IN(u32, drop); __CPROVER_assume(drop < 8); c_cb = 0; vf_sig_call(x, drop); ALIVE_LOG(x); VF_PROBE(); }\n'
          'void h_sig_moved(void){ VF_IN(u32, x); VF_IN(u32, drop); __CPROVER_assume(drop < 8 && x < 1000); c_cb = 0; vf_sig_moved(x, drop); ALIVE_LOG(x); VF_PROBE(); }\n'
          'void h_sig_dies_first(void){ VF_IN(u32, x); c_cb = 0; _Bool r = vf_sig_dies_first(x); __CPROVER_assert(r && c_cb == 1 && l_id[0] == 1 && l_arg[0] == x, "the callback ran once while the signal lived; destroying the connection after its signal is safe"); VF_PROBE(); }\n'
          'void h_sig_empty(void){ VF_IN(u32, drop); __CPROVER_assume(drop < 2); c_cb = 0; _Bool r = vf_sig_empty(drop); __CPROVER_assert(r && c_cb == 0, "empty() holds exactly when no live connection is registered"); VF_PROBE(); }\n')
    hs += ('u32 __CPROVER_uninterpreted_cbr(u32, u32); u32 __CPROVER_uninterpreted_comb(u32, u32);\n'
           'u32 vf_cbr(u32 id, u32 a){ if (c_cb < 8) { l_id[c_cb] = id; l_arg[c_cb] = a; } ++c_cb; return __CPROVER_uninterpreted_cbr(id, a); }\n'
           'u32 vf_comb(u32 s, u32 r){ return __CPROVER_uninterpreted_comb(s, r); }\n'
           'static unsigned c_un; static u32 l_un[8];\nvoid vf_unreg(u32 id){ if (c_un < 8) l_un[c_un] = id; ++c_un; }\n'
           'void h_sig_combine(void){ VF_IN(u32, x); VF_IN(u32, init); VF_IN(u32, drop); __CPROVER_assume(drop < 8); c_cb = 0; u32 r = vf_sig_combine(x, init, drop);\n'
           '  u32 e = init; for (unsigned id = 1; id <= 3; ++id) if (!((drop >> (id - 1)) & 1)) e = __CPROVER_uninterpreted_comb(e, __CPROVER_uninterpreted_cbr(id, x));\n'
           '  __CPROVER_assert(r == e, "the result is the left fold of the combiner over the results of the live callbacks, in connection order, starting from the initial value"); ALIVE_LOG(x); VF_PROBE(); }\n'
           )
    for K in range(4):   # one lemma per subset of dropped connections (a symbolic subset did not close in 10 min)
        hs += ('void h_sig_unregister_%d(void){ VF_IN(u32, x); u32 drop = %d; c_cb = 0; c_un = 0; vf_sig_unregister(x, drop);\n' % (K, K) +
               '  unsigned n1 = 0, n2 = 0, m1 = 9, m2 = 9, p1 = 9, p2 = 9; for (unsigned k = 0; k < 8; ++k) if (k < c_un) { if (l_un[k] == 1) { ++n1; p1 = k; } else if (l_un[k] == 2) { ++n2; p2 = k; } else if (m1 == 9) m1 = k; else m2 = k; }\n'
               '  __CPROVER_assert(c_un == 4 && n1 == 1 && n2 == 1, "the unregister function of every connection runs exactly once");\n'
               '  __CPROVER_assert(((drop & 1) ? p1 < m1 : p1 > m2) && ((drop & 2) ? p2 < m1 : p2 > m2), "it runs when the connection object is destroyed - never during a call of the signal");\n'
               '  { unsigned k = 0; for (unsigned id = 1; id <= 2; ++id) if (!((drop >> (id - 1)) & 1)) { __CPROVER_assert(k < c_cb && l_id[k] == id && l_arg[k] == x, "live callbacks are invoked in order"); ++k; } __CPROVER_assert(c_cb == k, "only live callbacks are invoked"); }\n  VF_PROBE(); }\n')
    hs += ('void h_sig_unreg1(void){ VF_IN(u32, x); __CPROVER_assume(x < 1000); c_cb = 0; c_un = 0; vf_sig_unreg1(x);\n'
           '  __CPROVER_assert(c_cb == 1 && l_id[0] == 1 && l_arg[0] == x, "the callback runs for the call made while the connection lives, and not afterwards");\n'
           '  __CPROVER_assert(c_un == 1, "the unregister function runs exactly once, when the connection object dies");\n'
           '  __CPROVER_assert(l_un[0] == 1, "inside its unregister function the dying connection is no longer a member of the signal (empty() holds)");\n  VF_PROBE(); }\n')
    P.generated['c11_sig_h.c'] = hs
    SIG = (('sig', 'sig.cpp', (('h_sig_call', 'calling a signal invokes exactly the callbacks whose connection object is still alive, in connection order (all 8 subsets of 3 connections)'),
                                ('h_sig_moved', 'a moved signal takes its connections along: the new signal invokes the live callbacks, the moved-from signal invokes none'),
                                ('h_sig_dies_first', 'a connection that outlives its signal can be destroyed safely (no dangling link)'),
                                ('h_sig_empty', 'signal::empty()'))),
           ('sigc', 'sigc.cpp', (('h_sig_combine', 'signal with a combiner: the result folds the results of exactly the live callbacks, in connection order'),)),
           ('sigu', 'sigu.cpp', tuple(('h_sig_unregister_%d' % K, 'unregister::base: the unregister function of a connection runs exactly once, when its connection object dies (dropped subset %d)' % K) for K in range(4))))
    # unregister::base (sigu.cpp): neither the two-connection lemmas (8 GB / 8 min each) nor the one-connection scenario h_sig_unreg1 (24 GB exhausted after 18 min) closed - not registered, listed as not decided
    SIG = SIG[:2]
    for un, shim, lem in SIG:   # one translation unit per signal type: every further std::function signature enlarges the target sets of all indirect calls
        us = P.unit(un, shim, harness=['c11_sig_h.c'], inline=True, maxb=32)
        for h, what in lem:
            us.lemma(h, cls='B', unwind=6, unwind_files={'c11_sig_h.c': 10}, mem=24, bound='one signal with at most three connections (unique_ptr + std::function on the heap)', backends=['sat'], cbmc=['--slice-formula', '--memory-leak-check'], what='signal: ' + what, timeout=1200)
    return P
