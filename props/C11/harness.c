/* C11 harness: a universe of 4 elements (indices 0..3) and 2 list heads (4, 5) in harness-owned storage, linked
   arbitrarily but well-formed; one real operation; the rings are read back and compared with the set-level model. */
struct node { struct node *prev, *next; };
#define NU 6
#define H0 4
#define H1 5
static struct node U[NU];
static u8 nx[NU], pv[NU]; static _Bool live[NU];        /* abstract state before the operation */
static u8 nx2[NU], pv2[NU]; static _Bool live2[NU];     /* ... and after (live2 is set by the lemma) */
static void setup(void){
  for (unsigned i = 0; i < NU; ++i) { u8 a, b; _Bool l; nx[i] = a; pv[i] = b; live[i] = (l != 0); __CPROVER_assume(a < NU && b < NU); }
  /* rep invariant of the linked structure: on live nodes next/prev are mutually inverse and stay inside the live set */
  for (unsigned i = 0; i < NU; ++i) if (live[i]) __CPROVER_assume(live[nx[i]] && live[pv[i]] && pv[nx[i]] == i && nx[pv[i]] == i);
  /* a ring contains at most one list head */
  { u8 c = nx[H0]; _Bool hit = 0; for (unsigned k = 0; k < NU; ++k) { if (c == H1) hit = 1; c = nx[c]; } __CPROVER_assume(!(live[H0] && live[H1] && hit)); }
  for (unsigned i = 0; i < NU; ++i) { if (live[i]) { U[i].next = &U[nx[i]]; U[i].prev = &U[pv[i]]; } /* dead storage: arbitrary contents */ }
}
static void readback(void){
  for (unsigned i = 0; i < NU; ++i) if (live2[i]) {
    __CPROVER_assert(__CPROVER_same_object(U[i].next, U) && __CPROVER_same_object(U[i].prev, U), "links of live nodes point into the universe");
    nx2[i] = (u8)(U[i].next - U); pv2[i] = (u8)(U[i].prev - U);
    __CPROVER_assert(nx2[i] < NU && pv2[i] < NU, "links of live nodes point at nodes");
  }
}
static void check_wf(void){
  for (unsigned i = 0; i < NU; ++i) if (live2[i]) {
    __CPROVER_assert(live2[nx2[i]] && live2[pv2[i]], "no live node refers to a destroyed node");
    __CPROVER_assert(pv2[nx2[i]] == i && nx2[pv2[i]] == i, "ring invariant: next and prev are mutually inverse");
  }
}
/* membership sequence of the list with head h: elements met walking next from the head (at most NU) */
static unsigned seq(const u8 *n, unsigned h, u8 *out){ unsigned k = 0; u8 c = n[h]; for (unsigned s = 0; s < NU; ++s) { if (c == h) break; out[k++] = c; c = n[c]; } return k; }
static _Bool in_seq(const u8 *s, unsigned n, unsigned x){ for (unsigned i = 0; i < NU; ++i) if (i < n && s[i] == x) return 1; return 0; }
static void frame_others(unsigned a, unsigned b, unsigned c, unsigned d){ /* nodes not adjacent to the operation keep their links */
  for (unsigned i = 0; i < NU; ++i) if (live[i] && live2[i] && i != a && i != b && i != c && i != d) __CPROVER_assert(nx2[i] == nx[i] && pv2[i] == pv[i], "frame: links of untouched nodes unchanged"); }
#define SAME_SEQ(hh, msg) do { u8 s1[NU], s2[NU]; unsigned n1 = seq(nx, hh, s1), n2 = seq(nx2, hh, s2); __CPROVER_assert(n1 == n2, msg); for (unsigned i = 0; i < NU; ++i) if (i < n1) __CPROVER_assert(s1[i] == s2[i], msg); } while (0)
#define COPY_LIVE() do { for (unsigned i = 0; i < NU; ++i) live2[i] = live[i]; } while (0)

void h_elem_ctor(void){ setup(); unsigned i, l; __CPROVER_assume(i < 4 && (l == H0 || l == H1) && !live[i] && live[l]);
  vf_elem_ctor(&U[i], &U[l]); COPY_LIVE(); live2[i] = 1; readback(); check_wf();
  u8 s1[NU], s2[NU]; unsigned n1 = seq(nx, l, s1), n2 = seq(nx2, l, s2);
  __CPROVER_assert(n2 == n1 + 1 && s2[n1] == i, "a new element is appended at the end of its list");
  for (unsigned k = 0; k < NU; ++k) if (k < n1) __CPROVER_assert(s2[k] == s1[k], "the other members keep their order");
  unsigned o = (l == H0 ? H1 : H0); if (live[o]) SAME_SEQ(o, "the other list is unchanged");
  frame_others(i, l, pv[l], NU); VF_PROBE(); }
void h_elem_dtor(void){ setup(); unsigned i; __CPROVER_assume(i < 4 && live[i]);
  vf_elem_dtor(&U[i]); COPY_LIVE(); live2[i] = 0; readback(); check_wf();
  for (unsigned h = H0; h <= H1; ++h) if (live[h]) { u8 s1[NU], s2[NU]; unsigned n1 = seq(nx, h, s1), n2 = seq(nx2, h, s2);
    __CPROVER_assert(n2 == n1 - (in_seq(s1, n1, i) ? 1 : 0), "a destroyed element leaves its list, nothing else does");
    __CPROVER_assert(!in_seq(s2, n2, i), "the list never refers to a destroyed element");
    for (unsigned a = 0, b = 0; a < NU; ++a) if (a < n1 && s1[a] != i) { __CPROVER_assert(b < n2 && s2[b] == s1[a], "remaining members keep their order"); ++b; } }
  frame_others(i, nx[i], pv[i], NU); VF_PROBE(); }
void h_elem_unlink(void){ setup(); unsigned i; __CPROVER_assume(i < 4 && live[i]);
  vf_elem_unlink(&U[i]); COPY_LIVE(); readback(); check_wf();
  __CPROVER_assert(nx2[i] == i && pv2[i] == i, "an unlinked element is self-linked");
  for (unsigned h = H0; h <= H1; ++h) if (live[h]) { u8 s2[NU]; unsigned n2 = seq(nx2, h, s2); __CPROVER_assert(!in_seq(s2, n2, i), "an unlinked element is in no list"); }
  frame_others(i, nx[i], pv[i], NU); VF_PROBE(); }
void h_elem_move_ctor(void){ setup(); unsigned i, j; __CPROVER_assume(i < 4 && j < 4 && i != j && !live[i] && live[j]);
  vf_elem_move_ctor(&U[i], &U[j]); COPY_LIVE(); live2[i] = 1; readback(); check_wf();
  __CPROVER_assert(nx2[j] == j && pv2[j] == j, "the moved-from element is self-linked (in no list)");
  for (unsigned h = H0; h <= H1; ++h) if (live[h]) { u8 s1[NU], s2[NU]; unsigned n1 = seq(nx, h, s1), n2 = seq(nx2, h, s2);
    __CPROVER_assert(n1 == n2, "moving an element keeps the length of every list");
    for (unsigned k = 0; k < NU; ++k) if (k < n1) __CPROVER_assert(s2[k] == (s1[k] == j ? i : s1[k]), "the new element takes exactly the place of the moved-from one"); }
  frame_others(i, j, nx[j], pv[j]); VF_PROBE(); }
void h_elem_move_assign(void){ setup(); unsigned i, j; __CPROVER_assume(i < 4 && j < 4 && live[i] && live[j]);
  vf_elem_move_assign(&U[i], &U[j]); COPY_LIVE(); readback(); check_wf();
  if (i != j) { __CPROVER_assert(nx2[j] == j && pv2[j] == j, "the moved-from element is self-linked (in no list)");
    for (unsigned h = H0; h <= H1; ++h) if (live[h]) { u8 s1[NU], s2[NU]; unsigned n1 = seq(nx, h, s1), n2 = seq(nx2, h, s2); unsigned b = 0;
      for (unsigned a = 0; a < NU; ++a) if (a < n1 && s1[a] != i) { __CPROVER_assert(b < n2 && s2[b] == (s1[a] == j ? i : s1[a]), "target leaves its old place and takes the place of the source"); ++b; }
      __CPROVER_assert(b == n2, "no other membership change"); } }
  else { for (unsigned h = H0; h <= H1; ++h) if (live[h]) SAME_SEQ(h, "self move-assignment changes nothing"); }
  VF_PROBE(); }
void h_list_ctor(void){ setup(); unsigned l; __CPROVER_assume((l == H0 || l == H1) && !live[l]);
  vf_list_ctor(&U[l]); COPY_LIVE(); live2[l] = 1; readback(); check_wf();
  __CPROVER_assert(nx2[l] == l && pv2[l] == l && vf_list_empty(&U[l]), "a new list is empty");
  frame_others(l, NU, NU, NU); VF_PROBE(); }
void h_list_dtor(void){ setup(); unsigned l; __CPROVER_assume((l == H0 || l == H1) && live[l]);
  vf_list_dtor(&U[l]); COPY_LIVE(); live2[l] = 0; readback(); check_wf();   /* former members form a ring among themselves: none refers to the dead head */
  frame_others(l, nx[l], pv[l], NU); VF_PROBE(); }
void h_list_move_ctor(void){ setup(); unsigned l, m; __CPROVER_assume((l == H0 || l == H1) && (m == H0 || m == H1) && l != m && !live[l] && live[m]);
  vf_list_move_ctor(&U[l], &U[m]); COPY_LIVE(); live2[l] = 1; readback(); check_wf();
  { u8 s1[NU], s2[NU], s3[NU]; unsigned n1 = seq(nx, m, s1), n2 = seq(nx2, l, s2), n3 = seq(nx2, m, s3);
    __CPROVER_assert(n2 == n1 && n3 == 0, "the new list takes over exactly the members of the source, which becomes empty");
    for (unsigned k = 0; k < NU; ++k) if (k < n1) __CPROVER_assert(s2[k] == s1[k], "members keep their order"); }
  VF_PROBE(); }
void h_list_move_assign(void){ setup(); unsigned l, m; __CPROVER_assume((l == H0 || l == H1) && (m == H0 || m == H1) && live[l] && live[m]);
  vf_list_move_assign(&U[l], &U[m]); COPY_LIVE(); readback(); check_wf();
  if (l != m) { u8 s1[NU], s2[NU], s3[NU]; unsigned n1 = seq(nx, m, s1), n2 = seq(nx2, l, s2), n3 = seq(nx2, m, s3);
    __CPROVER_assert(n2 == n1 && n3 == 0, "the target list holds exactly the members of the source, which becomes empty; its old members are in no list");
    for (unsigned k = 0; k < NU; ++k) if (k < n1) __CPROVER_assert(s2[k] == s1[k], "members keep their order"); }
  else { SAME_SEQ(l, "self move-assignment changes nothing"); }
  VF_PROBE(); }
void h_list_walk(void){ setup(); unsigned l; __CPROVER_assume((l == H0 || l == H1) && live[l]);
  void *out[NU]; unsigned n = vf_list_walk(&U[l], out, NU); void *outb[NU]; unsigned nb = vf_list_walk_back(&U[l], outb, NU);
  u8 s1[NU]; unsigned n1 = seq(nx, l, s1);
  __CPROVER_assert(n == n1 && nb == n1 && vf_list_empty(&U[l]) == (n1 == 0), "iteration visits exactly the members; empty() iff there are none");
  for (unsigned k = 0; k < NU; ++k) if (k < n1) { __CPROVER_assert(out[k] == (void *)&U[s1[k]], "forward iteration yields the members in link order"); __CPROVER_assert(outb[k] == (void *)&U[s1[n1 - 1 - k]], "backward iteration yields them in reverse"); }
  VF_PROBE(); }
