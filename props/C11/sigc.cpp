// C11 shim (signal with a combiner; its own translation unit keeps the std::function target sets small): a real fcppt::signal::object<void(int)> with three connections; some connection objects die before
// the call, the signal is moved, or the signal dies before its connections. Callbacks are harness hooks (ghost call log).
#include <fcppt/signal/object.hpp>
#include <fcppt/signal/auto_connection.hpp>
#include <fcppt/signal/connection.hpp>
#include <fcppt/signal/unregister/base.hpp>
#include <fcppt/signal/unregister/function.hpp>
#include <utility>
extern "C" { void vf_cb(int id, int arg); int vf_cbr(int id, int arg); int vf_comb(int state, int r); void vf_unreg(int id); }
using sig = fcppt::signal::object<void(int)>;
using conn = fcppt::signal::auto_connection;
static void kill(conn &&c){ conn const dead{std::move(c)}; }   // the connection object is destroyed here
#define THREE conn c1{s.connect(sig::function{[](int a){ vf_cb(1, a); }})}; conn c2{s.connect(sig::function{[](int a){ vf_cb(2, a); }})}; conn c3{s.connect(sig::function{[](int a){ vf_cb(3, a); }})}
extern "C" {
using rsig = fcppt::signal::object<int(int)>;
int vf_sig_combine(int x, int init, unsigned drop){ rsig s{rsig::combiner_function{[](int st, int r){ return vf_comb(st, r); }}};
  conn c1{s.connect(rsig::function{[](int a){ return vf_cbr(1, a); }})}; conn c2{s.connect(rsig::function{[](int a){ return vf_cbr(2, a); }})}; conn c3{s.connect(rsig::function{[](int a){ return vf_cbr(3, a); }})};
  if (drop & 1U) kill(std::move(c1)); if (drop & 2U) kill(std::move(c2)); if (drop & 4U) kill(std::move(c3)); return s(rsig::initial_value{init}, x); }
}
