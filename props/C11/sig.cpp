// C11 shim (signal): a real fcppt::signal::object<void(int)> with three connections; some connection objects die before
// the call, the signal is moved, or the signal dies before its connections. Callbacks are harness hooks (ghost call log).
#include <fcppt/signal/object.hpp>
#include <fcppt/signal/auto_connection.hpp>
#include <fcppt/signal/connection.hpp>
#include <fcppt/signal/unregister/base.hpp>
#include <fcppt/signal/unregister/function.hpp>
#include <utility>
extern "C" { void vf_cb(int id, int arg); int vf_cbr(int id, int arg); int vf_comb(int state, int r); void vf_unreg(int id); }
using sig = fcppt::signal::object<void(int)>;
using conn = fcppt::signal::auto_connection;
static void kill(conn &&c){ conn const dead{std::move(c)}; }   // the connection object is destroyed here
#define THREE conn c1{s.connect(sig::function{[](int a){ vf_cb(1, a); }})}; conn c2{s.connect(sig::function{[](int a){ vf_cb(2, a); }})}; conn c3{s.connect(sig::function{[](int a){ vf_cb(3, a); }})}
extern "C" {
void vf_sig_call(int x, unsigned drop){ sig s; THREE; if (drop & 1U) kill(std::move(c1)); if (drop & 2U) kill(std::move(c2)); if (drop & 4U) kill(std::move(c3)); s(x); }
void vf_sig_moved(int x, unsigned drop){ sig s; THREE; sig t{std::move(s)}; if (drop & 1U) kill(std::move(c1)); if (drop & 2U) kill(std::move(c2)); if (drop & 4U) kill(std::move(c3)); t(x); s(x + 1); }
bool vf_sig_dies_first(int x){ conn keep{[x]{ sig s; conn c{s.connect(sig::function{[](int a){ vf_cb(1, a); }})}; s(x); return c; }()}; return true; }   // the connection outlives its signal and is destroyed afterwards
bool vf_sig_empty(unsigned drop){ sig s; bool const e0 = s.empty(); conn c1{s.connect(sig::function{[](int a){ vf_cb(1, a); }})}; bool const e1 = s.empty(); if (drop & 1U) kill(std::move(c1)); return e0 && !e1 && (s.empty() == ((drop & 1U) != 0U)); }
}
