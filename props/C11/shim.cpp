// C11 shim: the real fcppt::intrusive::base / list / iterator applied to raw storage owned by the harness
#include <fcppt/intrusive/base.hpp>
#include <fcppt/intrusive/list.hpp>
#include <new>
#include <utility>
struct elem : fcppt::intrusive::base<elem> { explicit elem(fcppt::intrusive::list<elem> &l) : fcppt::intrusive::base<elem>(l) {} elem(elem &&) noexcept = default; elem &operator=(elem &&) noexcept = default; ~elem() = default; };
using list = fcppt::intrusive::list<elem>;
static_assert(sizeof(elem) == 2 * sizeof(void *) && sizeof(list) == 2 * sizeof(void *));
extern "C" {
void vf_elem_ctor(void *n, void *l){ new (n) elem(*static_cast<list *>(l)); }
void vf_elem_dtor(void *n){ static_cast<elem *>(n)->~elem(); }
void vf_elem_move_ctor(void *n, void *from){ new (n) elem(std::move(*static_cast<elem *>(from))); }
void vf_elem_move_assign(void *n, void *from){ *static_cast<elem *>(n) = std::move(*static_cast<elem *>(from)); }
void vf_elem_unlink(void *n){ static_cast<elem *>(n)->unlink(); }
void vf_list_ctor(void *l){ new (l) list(); }
void vf_list_dtor(void *l){ static_cast<list *>(l)->~list(); }
void vf_list_move_ctor(void *l, void *from){ new (l) list(std::move(*static_cast<list *>(from))); }
void vf_list_move_assign(void *l, void *from){ *static_cast<list *>(l) = std::move(*static_cast<list *>(from)); }
bool vf_list_empty(void *l){ return static_cast<list *>(l)->empty(); }
// walk with the real iterators: writes the addresses of the visited elements, returns the count (at most max)
unsigned vf_list_walk(void *l, void **out, unsigned max){ unsigned n = 0; list &ls = *static_cast<list *>(l); for (auto it = ls.begin(); it != ls.end() && n < max; ++it) out[n++] = &*it; return n; }
unsigned vf_list_walk_back(void *l, void **out, unsigned max){ unsigned n = 0; list &ls = *static_cast<list *>(l); for (auto it = ls.end(); it != ls.begin() && n < max;) { --it; out[n++] = &*it; } return n; }
}
