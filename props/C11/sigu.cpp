// C11 shim (signal with unregister functions): a real fcppt::signal::object<void(int)> with three connections; some connection objects die before
// the call, the signal is moved, or the signal dies before its connections. Callbacks are harness hooks (ghost call log).
#include <fcppt/signal/object.hpp>
#include <fcppt/signal/auto_connection.hpp>
#include <fcppt/signal/connection.hpp>
#include <fcppt/signal/unregister/base.hpp>
#include <fcppt/signal/unregister/function.hpp>
#include <utility>
extern "C" { void vf_cb(int id, int arg); int vf_cbr(int id, int arg); int vf_comb(int state, int r); void vf_unreg(int id); }
using sig = fcppt::signal::object<void(int)>;
using conn = fcppt::signal::auto_connection;
static void kill(conn &&c){ conn const dead{std::move(c)}; }   // the connection object is destroyed here
#define THREE conn c1{s.connect(sig::function{[](int a){ vf_cb(1, a); }})}; conn c2{s.connect(sig::function{[](int a){ vf_cb(2, a); }})}; conn c3{s.connect(sig::function{[](int a){ vf_cb(3, a); }})}
extern "C" {
using usig = fcppt::signal::object<void(int), fcppt::signal::unregister::base>;
// one connection whose unregister function looks at its own signal: at that moment the dying connection is no member any more
void vf_sig_unreg1(int x){ usig s;
  { conn c{s.connect(usig::function{[](int a){ vf_cb(1, a); }}, fcppt::signal::unregister::function{[&s]{ vf_unreg(s.empty() ? 1 : 2); }})}; s(x); }
  s(x + 1); }
}
