// C07 shim: one real raw_vector<int> operation from an arbitrary well-formed vector (capacity <= 4, symbolic contents),
// set up through the public rep constructor; the resulting size / capacity / elements / returned iterator are handed out.
#include <fcppt/container/raw_vector/object.hpp>
#include <fcppt/container/raw_vector/rep_decl.hpp>
#include <fcppt/container/raw_vector/rep_impl.hpp>
#include <cstddef>
#include <memory>
#include <utility>
using rv = fcppt::container::raw_vector::object<int>;
using alloc = std::allocator<int>;
struct outp { std::size_t size, cap; long ret; int e[8]; };
static rv mk(std::size_t cap, std::size_t n, int a0, int a1, int a2, int a3){
  alloc al{}; int *p = cap == 0 ? nullptr : al.allocate(cap); int const a[4] = {a0, a1, a2, a3};
  for (std::size_t i = 0; i < 4 && i < n; ++i) p[i] = a[i];
  return rv{fcppt::container::raw_vector::rep<alloc>{al, p, p + n, p + cap}};
}
static void put(rv const &v, outp *o, long ret){ o->size = v.size(); o->cap = v.capacity(); o->ret = ret; for (std::size_t i = 0; i < 8 && i < v.size(); ++i) o->e[i] = v[i]; }
#define ST std::size_t cap, std::size_t n, int a0, int a1, int a2, int a3
#define MK rv v{mk(cap, n, a0, a1, a2, a3)}
extern "C" {
void vf_rv_push_back(ST, int x, outp *o){ MK; v.push_back(x); put(v, o, 0); }
void vf_rv_push_back_alias(ST, std::size_t k, outp *o){ MK; v.push_back(v[k]); put(v, o, 0); }
void vf_rv_pop_back(ST, outp *o){ MK; v.pop_back(); put(v, o, 0); }
void vf_rv_insert(ST, std::size_t i, int x, outp *o){ MK; auto const it = v.insert(v.begin() + i, x); put(v, o, it - v.begin()); }
void vf_rv_insert_alias(ST, std::size_t i, std::size_t k, outp *o){ MK; auto const it = v.insert(v.begin() + i, v[k]); put(v, o, it - v.begin()); }
void vf_rv_insert_n(ST, std::size_t i, std::size_t cnt, int x, outp *o){ MK; v.insert(v.begin() + i, cnt, x); put(v, o, 0); }
void vf_rv_insert_n_alias(ST, std::size_t i, std::size_t cnt, std::size_t k, outp *o){ MK; v.insert(v.begin() + i, cnt, v[k]); put(v, o, 0); }
void vf_rv_insert_range(ST, std::size_t i, std::size_t cnt, int x0, int x1, outp *o){ MK; int const src[2] = {x0, x1}; v.insert(v.begin() + i, src, src + cnt); put(v, o, 0); }
void vf_rv_erase(ST, std::size_t i, outp *o){ MK; auto const it = v.erase(v.begin() + i); put(v, o, it - v.begin()); }
void vf_rv_erase_range(ST, std::size_t i, std::size_t j, outp *o){ MK; auto const it = v.erase(v.begin() + i, v.begin() + j); put(v, o, it - v.begin()); }
void vf_rv_resize(ST, std::size_t m, int x, outp *o){ MK; v.resize(m, x); put(v, o, 0); }
void vf_rv_reserve(ST, std::size_t c, outp *o){ MK; v.reserve(c); put(v, o, 0); }
void vf_rv_shrink(ST, outp *o){ MK; v.shrink_to_fit(); put(v, o, 0); }
void vf_rv_clear(ST, outp *o){ MK; v.clear(); put(v, o, 0); }
void vf_rv_move_ctor(ST, outp *o, outp *src){ MK; rv w{std::move(v)}; put(w, o, 0); put(v, src, 0); }
void vf_rv_move_assign(ST, std::size_t n2, int b0, int b1, outp *o, outp *src){ MK; rv w{mk(2, n2, b0, b1, 0, 0)}; w = std::move(v); put(w, o, 0); put(v, src, 0); }
void vf_rv_swap(ST, std::size_t n2, int b0, int b1, outp *o, outp *o2){ MK; rv w{mk(2, n2, b0, b1, 0, 0)}; v.swap(w); put(v, o, 0); put(w, o2, 0); }
void vf_rv_ctor_count(std::size_t cnt, int x, outp *o){ rv v(cnt, x); put(v, o, 0); }
void vf_rv_ctor_range(std::size_t cnt, int x0, int x1, int x2, outp *o){ int const src[3] = {x0, x1, x2}; rv v(src, src + cnt); put(v, o, 0); }
void vf_rv_ctor_list(int x0, int x1, outp *o){ rv v{x0, x1}; put(v, o, 0); }
}
