// C07 shim: one real raw_vector<int> operation from an arbitrary well-formed vector (capacity <= 4, symbolic contents),
// set up through the public rep constructor; the resulting size / capacity / elements / returned iterator are handed out.
#include <fcppt/container/raw_vector/object.hpp>
#include <fcppt/container/raw_vector/comparison.hpp>
#include <fcppt/container/raw_vector/rep_decl.hpp>
#include <fcppt/container/raw_vector/rep_impl.hpp>
#include <cstddef>
#include <memory>
#include <utility>
#ifndef VF_ELEM
#define VF_ELEM int
#endif
using elem = VF_ELEM; // int, or unsigned char (1-byte elements: the byte-loop memmove model is then element-exact and the insert/resize family closes)
using rv = fcppt::container::raw_vector::object<elem>;
using alloc = std::allocator<elem>;
struct outp { std::size_t size, cap; long ret; elem e[8]; };
static rv mk(std::size_t cap, std::size_t n, elem a0, elem a1, elem a2, elem a3){
  alloc al{}; elem *p = cap == 0 ? nullptr : al.allocate(cap); elem const a[4] = {a0, a1, a2, a3};
  for (std::size_t i = 0; i < 4 && i < n; ++i) p[i] = a[i];
  return rv{fcppt::container::raw_vector::rep<alloc>{al, p, p + n, p + cap}};
}
static void put(rv const &v, outp *o, long ret){ o->size = v.size(); o->cap = v.capacity(); o->ret = ret; for (std::size_t i = 0; i < 8 && i < v.size(); ++i) o->e[i] = v[i]; }
#define ST std::size_t cap, std::size_t n, elem a0, elem a1, elem a2, elem a3
#define MK rv v{mk(cap, n, a0, a1, a2, a3)}
extern "C" {
void vf_rv_push_back(ST, elem x, outp *o){ MK; v.push_back(x); put(v, o, 0); }
void vf_rv_push_back_alias(ST, std::size_t k, outp *o){ MK; v.push_back(v[k]); put(v, o, 0); }
void vf_rv_pop_back(ST, outp *o){ MK; v.pop_back(); put(v, o, 0); }
void vf_rv_insert(ST, std::size_t i, elem x, outp *o){ MK; auto const it = v.insert(v.begin() + i, x); put(v, o, it - v.begin()); }
void vf_rv_insert_alias(ST, std::size_t i, std::size_t k, outp *o){ MK; auto const it = v.insert(v.begin() + i, v[k]); put(v, o, it - v.begin()); }
void vf_rv_insert_n(ST, std::size_t i, std::size_t cnt, elem x, outp *o){ MK; v.insert(v.begin() + i, cnt, x); put(v, o, 0); }
void vf_rv_insert_n_alias(ST, std::size_t i, std::size_t cnt, std::size_t k, outp *o){ MK; v.insert(v.begin() + i, cnt, v[k]); put(v, o, 0); }
void vf_rv_insert_range(ST, std::size_t i, std::size_t cnt, elem x0, elem x1, outp *o){ MK; elem const src[2] = {x0, x1}; v.insert(v.begin() + i, src, src + cnt); put(v, o, 0); }
#define CNT(C) \
void vf_rv_insert_n_##C(ST, std::size_t i, elem x, outp *o){ vf_rv_insert_n(cap, n, a0, a1, a2, a3, i, C, x, o); } \
void vf_rv_insert_n_alias_##C(ST, std::size_t i, std::size_t k, outp *o){ vf_rv_insert_n_alias(cap, n, a0, a1, a2, a3, i, C, k, o); } \
void vf_rv_insert_range_##C(ST, std::size_t i, elem x0, elem x1, outp *o){ vf_rv_insert_range(cap, n, a0, a1, a2, a3, i, C, x0, x1, o); }
CNT(1) CNT(2)
void vf_rv_erase(ST, std::size_t i, outp *o){ MK; auto const it = v.erase(v.begin() + i); put(v, o, it - v.begin()); }
void vf_rv_erase_range(ST, std::size_t i, std::size_t j, outp *o){ MK; auto const it = v.erase(v.begin() + i, v.begin() + j); put(v, o, it - v.begin()); }
void vf_rv_resize(ST, std::size_t m, elem x, outp *o){ MK; v.resize(m, x); put(v, o, 0); }
#define RS(M) void vf_rv_resize_##M(ST, elem x, outp *o){ vf_rv_resize(cap, n, a0, a1, a2, a3, M, x, o); }
RS(0) RS(1) RS(2) RS(3) RS(4) RS(5)
void vf_rv_reserve(ST, std::size_t c, outp *o){ MK; v.reserve(c); put(v, o, 0); }
void vf_rv_shrink(ST, outp *o){ MK; v.shrink_to_fit(); put(v, o, 0); }
void vf_rv_clear(ST, outp *o){ MK; v.clear(); put(v, o, 0); }
void vf_rv_move_ctor(ST, outp *o, outp *src){ MK; rv w{std::move(v)}; put(w, o, 0); put(v, src, 0); }
void vf_rv_move_assign(ST, std::size_t n2, elem b0, elem b1, outp *o, outp *src){ MK; rv w{mk(2, n2, b0, b1, 0, 0)}; w = std::move(v); put(w, o, 0); put(v, src, 0); }
void vf_rv_swap(ST, std::size_t n2, elem b0, elem b1, outp *o, outp *o2){ MK; rv w{mk(2, n2, b0, b1, 0, 0)}; v.swap(w); put(v, o, 0); put(w, o2, 0); }
void vf_rv_ctor_count(std::size_t cnt, elem x, outp *o){ rv v(cnt, x); put(v, o, 0); }
void vf_rv_ctor_range(std::size_t cnt, elem x0, elem x1, elem x2, outp *o){ elem const src[3] = {x0, x1, x2}; rv v(src, src + cnt); put(v, o, 0); }
void vf_rv_ctor_list(elem x0, elem x1, outp *o){ rv v{x0, x1}; put(v, o, 0); }
#define TWOV std::size_t n1, elem a0, elem a1, std::size_t n2, elem b0, elem b1
#define MK2 rv const x{mk(2, n1, a0, a1, 0, 0)}; rv const y{mk(2, n2, b0, b1, 0, 0)}
bool vf_rv_eq(TWOV){ MK2; return x == y; }
bool vf_rv_ne(TWOV){ MK2; return x != y; }
bool vf_rv_lt(TWOV){ MK2; return x < y; }
bool vf_rv_le(TWOV){ MK2; return x <= y; }
bool vf_rv_gt(TWOV){ MK2; return x > y; }
bool vf_rv_ge(TWOV){ MK2; return x >= y; }
}
