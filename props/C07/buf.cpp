// C07 shim (container::buffer): one real buffer operation from an arbitrary well-formed buffer state
// (capacity c <= 4, read area r, write area w, r + w <= c, symbolic contents), reached through the public interface only:
// buffer(c); fill; written(r); resize_write_area(w).  The write area handed out is always written completely, so a write
// area that reaches behind the allocation is a pointer-check failure.
#include <fcppt/container/buffer/object.hpp>
#include <fcppt/container/buffer/append_from.hpp>
#include <fcppt/container/buffer/append_from_opt.hpp>
#include <fcppt/container/buffer/read_from.hpp>
#include <fcppt/container/buffer/read_from_opt.hpp>
#include <fcppt/container/buffer/to_raw_vector.hpp>
#include <fcppt/container/raw_vector/object.hpp>
#include <fcppt/optional/object.hpp>
#include <fcppt/optional/maybe.hpp>
#include <cstddef>
#include <utility>
#ifndef VF_ELEM
#define VF_ELEM unsigned char
#endif
using elem = VF_ELEM;
using buf = fcppt::container::buffer::object<elem>;
using rv = fcppt::container::raw_vector::object<elem>;
struct outb { std::size_t rsize, wsize, rsize1, wsize1, aux; elem e[8]; };
static buf mkb(std::size_t c, std::size_t r, std::size_t w, elem a0, elem a1, elem a2, elem a3){
  buf b{c}; elem const a[4] = {a0, a1, a2, a3};
  for (std::size_t i = 0; i < 4 && i < r; ++i) b.write_data()[i] = a[i];
  b.written(r); b.resize_write_area(w); return b; }
static void putb(buf const &b, outb *o){ o->rsize = b.read_size(); o->wsize = const_cast<buf &>(b).write_size(); for (std::size_t i = 0; i < 8 && i < b.read_size(); ++i) o->e[i] = b[i]; }
#define ST std::size_t c, std::size_t r, std::size_t w, elem a0, elem a1, elem a2, elem a3
#define MK buf b{mkb(c, r, w, a0, a1, a2, a3)}
#define FILL(B, S) do { elem const f[3] = {f0, f1, f2}; for (std::size_t i = 0; i < 3 && i < (S); ++i) (B).write_data()[i] = f[i]; } while (false)
extern "C" {
void vf_buf_ctor(std::size_t c, outb *o){ buf b{c}; putb(b, o); o->aux = static_cast<std::size_t>(b.end() - b.begin()); }
void vf_buf_state(ST, outb *o){ MK; putb(b, o); o->aux = static_cast<std::size_t>(b.write_data_end() - b.write_data()); }
void vf_buf_written(ST, std::size_t k, elem f0, elem f1, elem f2, outb *o){ MK; FILL(b, k); b.written(k); putb(b, o); }
void vf_buf_resize(ST, std::size_t s, elem f0, elem f1, elem f2, outb *o){ MK; b.resize_write_area(s); o->rsize1 = b.read_size(); o->wsize1 = b.write_size();
  o->aux = static_cast<std::size_t>(b.write_data() - b.read_data()); FILL(b, s); b.written(s); putb(b, o); }
void vf_buf_append_from(ST, std::size_t s, std::size_t k, elem f0, elem f1, elem f2, outb *o){ MK; std::size_t seen = 99; bool okp = false;
  buf b2{fcppt::container::buffer::append_from(std::move(b), s, [&](elem *p, std::size_t sz){ seen = sz; elem const f[3] = {f0, f1, f2}; for (std::size_t i = 0; i < 3 && i < sz; ++i) p[i] = f[i]; okp = true; return k; })};
  o->rsize1 = seen; o->wsize1 = okp; putb(b2, o); o->aux = b.read_size() + b.write_size(); }
void vf_buf_append_from_opt(ST, std::size_t s, int some, std::size_t k, elem f0, elem f1, elem f2, outb *o){ MK; std::size_t seen = 99;
  fcppt::optional::object<buf> r2{fcppt::container::buffer::append_from_opt(std::move(b), s, [&](elem *p, std::size_t sz){ seen = sz; elem const f[3] = {f0, f1, f2}; for (std::size_t i = 0; i < 3 && i < sz; ++i) p[i] = f[i];
    return some != 0 ? fcppt::optional::object<std::size_t>{k} : fcppt::optional::object<std::size_t>{}; })};
  o->rsize1 = seen; o->wsize1 = r2.has_value(); if (r2.has_value()) putb(r2.get_unsafe(), o); }
void vf_buf_read_from(std::size_t s, std::size_t k, elem f0, elem f1, elem f2, outb *o){ std::size_t seen = 99;
  buf b2{fcppt::container::buffer::read_from<buf>(s, [&](elem *p, std::size_t sz){ seen = sz; elem const f[3] = {f0, f1, f2}; for (std::size_t i = 0; i < 3 && i < sz; ++i) p[i] = f[i]; return k; })};
  o->rsize1 = seen; putb(b2, o); }
void vf_buf_read_from_opt(std::size_t s, int some, std::size_t k, elem f0, elem f1, elem f2, outb *o){ std::size_t seen = 99;
  fcppt::optional::object<buf> r2{fcppt::container::buffer::read_from_opt<buf>(s, [&](elem *p, std::size_t sz){ seen = sz; elem const f[3] = {f0, f1, f2}; for (std::size_t i = 0; i < 3 && i < sz; ++i) p[i] = f[i];
    return some != 0 ? fcppt::optional::object<std::size_t>{k} : fcppt::optional::object<std::size_t>{}; })};
  o->rsize1 = seen; o->wsize1 = r2.has_value(); if (r2.has_value()) putb(r2.get_unsafe(), o); }
void vf_buf_to_raw_vector(ST, outb *o){ MK; rv v{fcppt::container::buffer::to_raw_vector(std::move(b))}; o->rsize = v.size(); o->wsize = v.capacity();
  for (std::size_t i = 0; i < 8 && i < v.size(); ++i) o->e[i] = v[i]; o->aux = b.read_size() + b.write_size(); }
void vf_buf_move_ctor(ST, outb *o){ MK; buf b2{std::move(b)}; putb(b2, o); o->aux = b.read_size() + b.write_size(); }
void vf_buf_move_assign(ST, std::size_t c2, outb *o){ MK; buf b2{c2}; b2 = std::move(b); putb(b2, o); }
void vf_buf_swap(ST, std::size_t c2, outb *o, outb *o2){ MK; buf b2{c2}; b.swap(b2); putb(b2, o); putb(b, o2); }
}
