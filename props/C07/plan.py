"""C07 - raw_vector behaves like std::vector (bounded stand-in: capacity <= 4, one operation from every well-formed state)."""
from vf.plan import Plan

ST = 'cap <= 4 && n <= cap'
ST3 = ST   # insert / resize family: same state space, checked on raw_vector<unsigned char> (with int elements capacity 4 did not close in 20 min, capacity 3 took 1000 s per job)
A = lambda k: '(%s == 0 ? a0 : (%s == 1 ? a1 : (%s == 2 ? a2 : a3)))' % (k, k, k)
FO = '__CPROVER_is_fresh(o, sizeof(*o))'
OW = '__CPROVER_object_whole(o)'


def elems(f, nmax=8):
    """conjunction over result positions: o->e[k] == f(k) for k < o->size"""
    return ' && '.join('VF_IMP(%d < o->size, o->e[%d] == %s)' % (k, k, f(str(k))) for k in range(nmax))


def make(tier):
    P = Plan('C07', level='model_checking', design_ref='DESIGN.md section 5 C07')
    P.meta += ['history induction: every constructor establishes, and every operation preserves, the representation invariant (first <= last <= cap inside one allocation) and refines the std::vector model; the per-operation steps are checked from EVERY well-formed vector with capacity <= 4 and symbolic contents, so histories of any length over vectors within that capacity bound follow']
    P.workers = 5
    P.not_decided += ['dynamic_array, io::read_chars', 'element types other than int (cheap operations) / unsigned char (insert and resize family); capacities above 4']
    C = {}
    C['vf_rv_push_back'] = ([ST], 'o->size == n + 1 && o->cap >= o->size && ' + elems(lambda k: '(%s < n ? %s : x)' % (k, A(k)), 5), 'push_back appends')
    C['vf_rv_push_back_alias'] = ([ST, 'k < n'], 'o->size == n + 1 && o->cap >= o->size && ' + elems(lambda k: '(%s < n ? %s : %s)' % (k, A(k), A('k')), 5), 'push_back(v[k]) appends the OLD value of the element (value aliasing an element, also across reallocation)')
    C['vf_rv_pop_back'] = ([ST, 'n >= 1'], 'o->size == n - 1 && o->cap >= o->size && ' + elems(lambda k: A(k), 4), 'pop_back removes the last element')
    ins = lambda val: 'o->size == n + 1 && o->cap >= o->size && o->ret == (i64)i && ' + elems(lambda k: '(%s < i ? %s : (%s == i ? %s : %s))' % (k, A(k), k, val, A('(%s - 1)' % k)), 5)
    C['vf_rv_insert'] = ([ST3, 'i <= n'], ins('x'), 'insert(pos, value): contents and returned iterator as std::vector')
    C['vf_rv_insert_alias'] = ([ST3, 'i <= n && k < n'], ins(A('k')), 'insert(pos, v[k]): the OLD value of the aliased element is inserted (in-place and reallocating paths)')
    for cnt in (1, 2):
        insn = lambda val, cnt=cnt: 'o->size == n + %d && o->cap >= o->size && ' % cnt + elems(lambda k: '(%s < i ? %s : (%s < i + %d ? %s : %s))' % (k, A(k), k, cnt, val, A('(%s - %d)' % (k, cnt))), 5)
        C['vf_rv_insert_n_%d' % cnt] = ([ST3, 'i <= n'], insn('x'), 'insert(pos, %d, value)' % cnt)
        C['vf_rv_insert_n_alias_%d' % cnt] = ([ST3, 'i <= n && k < n'], insn(A('k')), 'insert(pos, %d, v[k]) with an aliased value' % cnt)
        C['vf_rv_insert_range_%d' % cnt] = ([ST3, 'i <= n'], 'o->size == n + %d && o->cap >= o->size && ' % cnt + elems(lambda k, cnt=cnt: '(%s < i ? %s : (%s < i + %d ? (%s == i ? x0 : x1) : %s))' % (k, A(k), k, cnt, k, A('(%s - %d)' % (k, cnt))), 5), 'insert(pos, first, last) from a forward range of %d elements' % cnt)
    C['vf_rv_erase'] = ([ST, 'i < n'], 'o->size == n - 1 && o->cap >= o->size && o->ret == (i64)i && ' + elems(lambda k: '(%s < i ? %s : %s)' % (k, A(k), A('(%s + 1)' % k)), 4), 'erase(pos): returns the iterator to the element that followed')
    C['vf_rv_erase_range'] = ([ST, 'i <= j && j <= n'], 'o->size == n - (j - i) && o->cap >= o->size && o->ret == (i64)i && ' + elems(lambda k: '(%s < i ? %s : %s)' % (k, A(k), A('(%s + (j - i))' % k)), 4), 'erase(first, last): returns the iterator to the element that followed the erased range (std::vector: first)')
    for m in range(6):
        C['vf_rv_resize_%d' % m] = ([ST3], 'o->size == %d && o->cap >= o->size && ' % m + elems(lambda k: '(%s < n ? %s : x)' % (k, A(k)), 5), 'resize(%d, value)' % m)
    C['vf_rv_reserve'] = ([ST, 'c <= 6'], 'o->size == n && o->cap >= c && o->cap >= o->size && ' + elems(lambda k: A(k), 4), 'reserve(c): capacity >= c, contents unchanged')
    C['vf_rv_shrink'] = ([ST], 'o->size == n && o->cap == n && ' + elems(lambda k: A(k), 4), 'shrink_to_fit: capacity == size, contents unchanged')
    C['vf_rv_clear'] = ([ST], 'o->size == 0 && o->cap >= 0', 'clear')
    FS = '__CPROVER_is_fresh(src, sizeof(*src))'
    C['vf_rv_move_ctor'] = ([ST, FS], 'o->size == n && o->cap == cap && src->size == 0 && src->cap == 0 && ' + elems(lambda k: A(k), 4), 'move construction takes over the storage; the source is empty')
    C['vf_rv_move_assign'] = ([ST, FS, 'n2 <= 2'], 'o->size == n && o->cap == cap && ' + elems(lambda k: A(k), 4), 'move assignment: the target holds exactly the source contents')
    C['vf_rv_swap'] = ([ST, '__CPROVER_is_fresh(o2, sizeof(*o2))', 'n2 <= 2'], 'o->size == n2 && o2->size == n && ' + elems(lambda k: '(%s == 0 ? b0 : b1)' % k, 2) + ' && ' + ' && '.join('VF_IMP(%d < o2->size, o2->e[%d] == %s)' % (k, k, A(str(k))) for k in range(4)), 'swap exchanges contents')
    C['vf_rv_ctor_count'] = (['cnt <= 4'], 'o->size == cnt && o->cap >= o->size && ' + elems(lambda k: 'x', 4), 'constructor (count, value)')
    C['vf_rv_ctor_range'] = (['cnt <= 3'], 'o->size == cnt && o->cap >= o->size && ' + elems(lambda k: '(%s == 0 ? x0 : (%s == 1 ? x1 : x2))' % (k, k), 3), 'constructor (first, last)')
    C['vf_rv_ctor_list'] = ([], 'o->size == 2 && o->cap >= 2 && o->e[0] == x0 && o->e[1] == x1', 'constructor (initializer list)')
    spec = ''
    for f, (req, ens, what) in C.items():
        spec += 'function %s\n  __CPROVER_requires(%s)\n' % (f, FO) + ''.join('  __CPROVER_requires(%s)\n' % r for r in req)
        asg = OW + (', __CPROVER_object_whole(src)' if 'src->' in ens or FS in req else '') + (', __CPROVER_object_whole(o2)' if 'o2->' in ens else '')
        spec += '  __CPROVER_assigns(%s)\n  __CPROVER_ensures(%s)\n' % (asg, ens)
    # field names of the generated C struct for `outp`: f0 size, f1 cap, f2 ret, f3.a[] elements
    import re
    spec = re.sub(r'(\w+)->size', r'\1->f0', spec); spec = re.sub(r'(\w+)->cap', r'\1->f1', spec); spec = re.sub(r'(\w+)->ret', r'\1->f2', spec); spec = re.sub(r'(\w+)->e\[', r'\1->f3.a[', spec)
    P.generated['c07.spec'] = spec
    # ---- container::buffer (on 1-byte elements) ----
    STB = 'c <= 4 && r <= 4 && w <= 4 && r + w <= c'
    F = lambda k: '(%s == 0 ? f0 : (%s == 1 ? f1 : f2))' % (k, k)
    app = lambda cnt: elems(lambda k: '(%s < r ? %s : %s)' % (k, A(k), F('(%s - r)' % k)), 7)
    B = {}
    B['vf_buf_ctor'] = (['c <= 4'], 'o->rsize == 0 && o->wsize == c && o->aux == 0', 'buffer(c): empty read area, write area of c elements')
    B['vf_buf_state'] = ([STB], 'o->rsize == r && o->wsize == w && o->aux == w && ' + elems(A, 4), 'written(r) then resize_write_area(w) within the capacity: read area = the r written elements, write area = w')
    B['vf_buf_written'] = ([STB, 'k <= w && k <= 3'], 'o->rsize == r + k && o->wsize == w - k && ' + app('k'), 'written(k): the first k elements of the write area join the read area')
    B['vf_buf_resize'] = ([STB, 's <= 3'], 'o->rsize1 == r && o->wsize1 == s && o->aux == r && o->rsize == r + s && o->wsize == 0 && ' + app('s'), 'resize_write_area(s) (in place and reallocating): the read area is preserved, exactly s elements are writable behind it (all s are written: memory safety), and they become readable by written(s)')
    B['vf_buf_append_from'] = ([STB, 's <= 3 && k <= s'], 'o->rsize1 == s && o->wsize1 == 1 && o->rsize == r + k && o->wsize == s - k && o->aux == 0 && ' + app('k'), 'append_from: the function is called once with the write area of the requested size; its result extends the read area; the moved-from buffer is empty')
    B['vf_buf_append_from_opt'] = ([STB, 's <= 3 && k <= s'], 'o->rsize1 == s && o->wsize1 == (some != 0) && VF_IMP(some != 0, o->rsize == r + k && o->wsize == s - k && ' + app('k') + ')', 'append_from_opt: nothing exactly when the function returns nothing')
    B['vf_buf_read_from'] = (['s <= 3 && k <= s'], 'o->rsize1 == s && o->rsize == k && o->wsize == s - k && ' + elems(F, 3), 'read_from: a fresh buffer whose read area is what the function wrote')
    B['vf_buf_read_from_opt'] = (['s <= 3 && k <= s'], 'o->rsize1 == s && o->wsize1 == (some != 0) && VF_IMP(some != 0, o->rsize == k && o->wsize == s - k && ' + elems(F, 3) + ')', 'read_from_opt')
    B['vf_buf_to_raw_vector'] = ([STB], 'o->rsize == r && o->wsize == c && o->aux == 0 && ' + elems(A, 4), 'to_raw_vector: the vector holds exactly the read area, capacity = the whole block; the buffer is left empty')
    B['vf_buf_move_ctor'] = ([STB], 'o->rsize == r && o->wsize == w && o->aux == 0 && ' + elems(A, 4), 'buffer(buffer&&): takes over the areas; the source is empty')
    B['vf_buf_move_assign'] = ([STB, 'c2 <= 2'], 'o->rsize == r && o->wsize == w && ' + elems(A, 4), 'buffer move assignment')
    B['vf_buf_swap'] = ([STB, 'c2 <= 2', '__CPROVER_is_fresh(o2, sizeof(*o2))'], 'o->rsize == r && o->wsize == w && o2->rsize == 0 && o2->wsize == c2 && ' + elems(A, 4), 'buffer swap')
    bspec = ''
    for f, (req, ens, what) in B.items():
        bspec += 'function %s\n  __CPROVER_requires(%s)\n' % (f, FO) + ''.join('  __CPROVER_requires(%s)\n' % r for r in req)
        bspec += '  __CPROVER_assigns(%s)\n  __CPROVER_ensures(%s)\n' % (OW + (', __CPROVER_object_whole(o2)' if 'o2->' in ens else ''), ens)
    for i, fld in enumerate(['rsize1', 'wsize1', 'rsize', 'wsize', 'aux']):
        bspec = re.sub(r'(\w+)->%s\b' % fld, r'\1->f%d' % {'rsize': 0, 'wsize': 1, 'rsize1': 2, 'wsize1': 3, 'aux': 4}[fld], bspec)
    bspec = re.sub(r'(\w+)->size\b', r'\1->f0', bspec)   # elems() speaks of o->size: the read size here
    bspec = re.sub(r'(\w+)->e\[', r'\1->f5.a[', bspec)
    P.generated['c07b.spec'] = bspec
    uq = P.unit('buf', 'buf.cpp', specs=['c07b.spec'], inline=True, maxb=8, defines=['VF_ELEM=unsigned char'])
    for f, (req, ens, what) in B.items():
        uq.contract(f, cls='B', unwind=10, bound='container::buffer<unsigned char> with capacity <= 4 (every well-formed read/write split, symbolic contents), requests of at most 3 elements; memmove/memcpy with symbolic size = byte-loop model of at most 8 bytes',
                    backends=['sat', 'cvc5'], timeout=1200, what='buffer: ' + what, cbmc=['--memory-leak-check'])
    # ---- comparison (two vectors of at most 2 elements each): == is size + elementwise, < is lexicographic
    EQV = '(n1 == n2 && (n1 < 1 || a0 == b0) && (n1 < 2 || a1 == b1))'
    LTV = lambda n1, a0, a1, n2, b0, b1: '(%s == 0 ? (%s > 0) : (%s == 0 ? 0 : (%s < %s ? 1 : (%s > %s ? 0 : (%s == 1 ? (%s > 1) : (%s == 1 ? 0 : %s < %s))))))' % (n1, n2, n2, a0, b0, a0, b0, n1, n2, n2, a1, b1)
    LT12 = LTV('n1', 'a0', 'a1', 'n2', 'b0', 'b1'); LT21 = LTV('n2', 'b0', 'b1', 'n1', 'a0', 'a1')
    CMP = {'vf_rv_eq': (EQV, '== holds exactly for equal size and equal elements'), 'vf_rv_ne': ('!' + EQV, '!= is the negation of =='), 'vf_rv_lt': (LT12, '< is the lexicographic order'),
           'vf_rv_gt': (LT21, '> is < with swapped operands'), 'vf_rv_le': ('!' + LT21, '<= is not >'), 'vf_rv_ge': ('!' + LT12, '>= is not <')}
    cspec = ''
    for f, (ens, what) in CMP.items():
        cspec += 'function %s\n  __CPROVER_requires(n1 <= 2 && n2 <= 2)\n  __CPROVER_assigns()\n  __CPROVER_ensures(__CPROVER_return_value == (%s))\n' % (f, ens)
    P.generated['c07c.spec'] = cspec
    HEAVY = lambda f: f.startswith('vf_rv_insert') or f.startswith('vf_rv_resize')
    u = P.unit('rv', 'shim.cpp', specs=['c07.spec'], inline=True, maxb=32)
    ub = P.unit('rvb', 'shim.cpp', specs=['c07.spec', 'c07c.spec'], inline=True, maxb=8, defines=['VF_ELEM=unsigned char'])
    for f, (req, ens, what) in C.items():
        capmax = 4
        if HEAVY(f):
            ub.contract(f, name=f + '_u8', cls='B', unwind=10, bound='raw_vector<unsigned char> with capacity <= %d (all sizes, symbolic contents, every valid position/count); memmove/memcpy with symbolic size = byte-loop model of at most 8 bytes (element-exact for 1-byte elements)' % capmax,
                        backends=['sat', 'cvc5'], timeout=1200, what='raw_vector: ' + what, cbmc=['--memory-leak-check'])
        else:
            u.contract(f, cls='B', unwind=34, bound='raw_vector<int> with capacity <= %d (all sizes, symbolic contents, every valid position/count); memmove/memcpy with symbolic size = byte-loop model of at most 32 bytes' % capmax,
                       backends=['sat', 'cvc5'], timeout=1200, what='raw_vector: ' + what, cbmc=['--memory-leak-check'])
    for f, (ens, what) in CMP.items():
        ub.contract(f, name=f + '_u8', cls='B', unwind=10, bound='two raw_vector<unsigned char> of at most 2 elements each, symbolic contents', backends=['sat', 'cvc5'], timeout=900, what='raw_vector comparison: ' + what, cbmc=['--memory-leak-check'])
    return P
