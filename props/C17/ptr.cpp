// C17 shim (pointer-like wrappers): unique_ptr, shared_ptr / weak_ptr, recursive and reference expose exactly the wrapped
// object. Each scenario returns a bit mask of violated statements (0 = all hold).
#include <fcppt/unique_ptr.hpp>
#include <fcppt/make_unique_ptr.hpp>
#include <fcppt/unique_ptr_to_const.hpp>
#include <fcppt/recursive.hpp>
#include <fcppt/recursive_comparison.hpp>
#include <fcppt/reference.hpp>
#include <fcppt/make_ref.hpp>
#include <utility>
extern "C" {
unsigned vf_unique(int x, int y){ unsigned bad = 0;
  fcppt::unique_ptr<int> p{fcppt::make_unique_ptr<int>(x)}; if (*p != x) bad |= 1U;
  *p = y; int *const raw{p.get_pointer()}; if (raw != &*p) bad |= 2U;
  fcppt::unique_ptr<int> q{std::move(p)}; if (*q != y || q.get_pointer() != raw) bad |= 4U;                       // ownership moves, the object stays
  fcppt::unique_ptr<int const> c{fcppt::unique_ptr_to_const(std::move(q))}; if (*c != y || c.get_pointer() != raw) bad |= 8U;
  return bad; }
unsigned vf_recursive(int x, int y){ unsigned bad = 0;
  fcppt::recursive<int> r{x}; if (r.get() != x) bad |= 1U;
  fcppt::recursive<int> c{r}; if (!(c == r) || c != r || &c.get() == &r.get()) bad |= 2U;                         // a copy is equal and independent (deep)
  c.get() = y; if (r.get() != x || c.get() != y) bad |= 4U;
  if ((c == r) != (x == y)) bad |= 8U;                                                                            // == compares the wrapped values
  r = c; if (r.get() != y || &c.get() == &r.get()) bad |= 16U;
  fcppt::recursive<int> m{std::move(c)}; if (m.get() != y) bad |= 32U;
  return bad; }
unsigned vf_reference(int x, int y){ unsigned bad = 0; int v{x}; int w{y};
  fcppt::reference<int> r{fcppt::make_ref(v)}; if (&r.get() != &v || r.get() != x) bad |= 1U;
  r.get() = y; if (v != y) bad |= 2U;                                                                              // writes go to the referenced object
  fcppt::reference<int> s{r}; if (&s.get() != &v) bad |= 4U;
  s = fcppt::make_ref(w); if (&s.get() != &w || &r.get() != &v) bad |= 8U;                                       // assignment rebinds, the other reference is untouched
  return bad; }
}
