// C17 shim (shared_ptr / weak_ptr); own translation unit (control block with virtual dispatch)
#include <fcppt/shared_ptr.hpp>
#include <fcppt/make_shared_ptr.hpp>
#include <fcppt/weak_ptr.hpp>
#include <fcppt/optional/object.hpp>
#include <utility>
extern "C" {
unsigned vf_shared(int x, int y){ unsigned bad = 0;
  fcppt::shared_ptr<int> p{fcppt::make_shared_ptr<int>(x)}; if (*p != x || !p.unique() || p.use_count() != 1) bad |= 1U;
  { fcppt::shared_ptr<int> q{p}; if (q.get_pointer() != p.get_pointer() || *q != x || p.use_count() != 2) bad |= 2U;    // a copy shares the object
    *q = y; if (*p != y) bad |= 4U;
    if (!(p == q) || p != q || p < q || q < p) bad |= 8U; }                                                              // ==, !=, < compare the pointers
  if (p.use_count() != 1) bad |= 16U;
  fcppt::shared_ptr<int> o{fcppt::make_shared_ptr<int>(y)}; if (o == p || !(o != p) || ((o < p) == (p < o))) bad |= 32U;
  fcppt::weak_ptr<int> w{p}; if (w.expired() || p.use_count() != 1) bad |= 64U;
  { fcppt::optional::object<fcppt::shared_ptr<int>> l{w.lock()}; if (!l.has_value() || l.get_unsafe().get_pointer() != p.get_pointer()) bad |= 128U; }
  { fcppt::shared_ptr<int> moved{std::move(p)}; if (*moved != y) bad |= 256U; }
  if (!w.expired() || w.lock().has_value()) bad |= 512U;                                                                 // the object died with its last owner
  return bad; }
}
