"""C17 - typed wrappers are transparent; ==, < and hash are mutually coherent."""
from vf.plan import Plan

# value types with static shape: name, includes, C++ type, scalar parameters (ctype, name), constructor expression over the
# parameter names prefixed by P, operators present, observable-component equality over prefixes a/b
TYPES = [
    dict(n='opt', inc=['optional/object.hpp', 'optional/comparison.hpp'], t='fcppt::optional::object<int>', p=[('bool', 'h'), ('int', 'v')],
         mk='(Ph ? T{Pv} : T{})', ops='eq ne lt', eq='(ah == bh && (!ah || av == bv))', norm='h == 0 || h == 1'),
    dict(n='eit', inc=['either/object.hpp', 'either/comparison.hpp'], t='fcppt::either::object<int, unsigned>', p=[('bool', 's'), ('int', 'f'), ('unsigned', 'v')],
         mk='(Ps ? T{Pv} : T{Pf})', ops='eq ne', eq='(as == bs && (as ? av == bv : af == bf))', norm='s == 0 || s == 1'),
    dict(n='var', inc=['variant/object.hpp', 'variant/comparison.hpp'], t='fcppt::variant::object<int, unsigned>', p=[('bool', 's'), ('int', 'f'), ('unsigned', 'v')],
         mk='(Ps ? T{Pv} : T{Pf})', ops='eq ne lt', eq='(as == bs && (as ? av == bv : af == bf))', norm='s == 0 || s == 1'),
    dict(n='tup', inc=['tuple/object.hpp', 'tuple/comparison.hpp'], t='fcppt::tuple::object<int, unsigned>', p=[('int', 'x'), ('unsigned', 'y')],
         mk='T{Px, Py}', ops='eq ne', eq='(ax == bx && ay == by)'),
    dict(n='arr', inc=['array/object.hpp', 'array/comparison.hpp'], t='fcppt::array::object<int, 2>', p=[('int', 'x'), ('int', 'y')],
         mk='T{Px, Py}', ops='eq ne', eq='(ax == bx && ay == by)'),
    dict(n='st', inc=['strong_typedef.hpp', 'strong_typedef_comparison.hpp', 'strong_typedef_hash.hpp'], t='fcppt::strong_typedef<int, struct st_tag>', p=[('int', 'x')],
         mk='T{Px}', ops='eq ne lt hash', eq='(ax == bx)', hash='fcppt::strong_typedef_hash<T>{}(X)'),
    dict(n='vec', inc=['math/vector/static.hpp', 'math/vector/comparison.hpp', 'math/vector/std_hash.hpp'], t='fcppt::math::vector::static_<int, 2>', p=[('int', 'x'), ('int', 'y')],
         mk='T{Px, Py}', ops='eq ne lt hash', eq='(ax == bx && ay == by)', hash='std::hash<T>{}(X)'),
    dict(n='dim', inc=['math/dim/static.hpp', 'math/dim/comparison.hpp', 'math/dim/std_hash.hpp'], t='fcppt::math::dim::static_<int, 2>', p=[('int', 'x'), ('int', 'y')],
         mk='T{Px, Py}', ops='eq ne lt hash', eq='(ax == bx && ay == by)', hash='std::hash<T>{}(X)'),
    dict(n='mat', inc=['math/matrix/static.hpp', 'math/matrix/row.hpp', 'math/matrix/comparison.hpp', 'math/matrix/std_hash.hpp'], t='fcppt::math::matrix::static_<int, 2, 2>',
         p=[('int', 'x'), ('int', 'y'), ('int', 'z'), ('int', 'w')],
         mk='T{fcppt::math::matrix::row(Px, Py), fcppt::math::matrix::row(Pz, Pw)}', ops='eq ne hash', eq='(ax == bx && ay == by && az == bz && aw == bw)', hash='std::hash<T>{}(X)'),
    dict(n='box', inc=['math/box/object.hpp', 'math/box/comparison.hpp'], t='fcppt::math::box::object<int, 2>', p=[('int', 'x'), ('int', 'y'), ('int', 'z'), ('int', 'w')],
         mk='T{T::vector{Px, Py}, T::vector{Pz, Pw}}', ops='eq ne lt', eq='(ax == bx && ay == by && az == bz && aw == bw)',
         pre='(i64)(i32)Pz - (i64)(i32)Px >= -2147483648LL && (i64)(i32)Pz - (i64)(i32)Px <= 2147483647LL && (i64)(i32)Pw - (i64)(i32)Py >= -2147483648LL && (i64)(i32)Pw - (i64)(i32)Py <= 2147483647LL'),
    dict(n='sph', inc=['math/sphere/object.hpp', 'math/sphere/comparison.hpp'], t='fcppt::math::sphere::object<int, 2>', p=[('int', 'x'), ('int', 'y'), ('int', 'r')],
         mk='T{T::point_type{Px, Py}, Pr}', ops='eq ne', eq='(ax == bx && ay == by && ar == br)'),
    dict(n='ref', inc=['reference.hpp', 'reference_comparison.hpp', 'reference_hash.hpp'], t='fcppt::reference<int>', p=[('unsigned', 'i')],
         mk='T{cells[Pi % 8]}', ops='eq ne lt hash', eq='((ai % 8) == (bi % 8))', hash='fcppt::reference_hash<T>{}(X)', glob='static int cells[8];'),
    dict(n='rec', inc=['record/object.hpp', 'record/comparison.hpp', 'record/element.hpp', 'record/make_label.hpp'], t='fcppt::record::object<fcppt::record::element<la, int>, fcppt::record::element<lb, unsigned>>',
         p=[('int', 'x'), ('unsigned', 'y')], mk='T{la{} = Px, lb{} = Py}', ops='eq ne', eq='(ax == bx && ay == by)', glob='FCPPT_RECORD_MAKE_LABEL(la);\nFCPPT_RECORD_MAKE_LABEL(lb);'),
    dict(n='earr', inc=['enum/array.hpp', 'enum/array_comparison.hpp'], t='fcppt::enum_::array<E3, int>', p=[('int', 'x'), ('int', 'y'), ('int', 'z')],
         mk='T{Px, Py, Pz}', ops='eq ne', eq='(ax == bx && ay == by && az == bz)', glob='enum class E3 { e0, e1, e2, fcppt_maximum = e2 };'),
]
CT = {'bool': '_Bool', 'int': 'u32', 'unsigned': 'u32'}


def make(tier):
    P = Plan('C17', level='proof', design_ref='DESIGN.md section 5 C17')
    P.not_decided += ['heap value types tree (bounded under C09), raw_vector (bounded under C07); unique_ptr / shared_ptr / weak_ptr / recursive / reference are bounded scenarios']
    P.meta += ['== is an equivalence because it is proved equal to equality of the observable component tuple; strict weak order = irreflexive + transitive + transitive incomparability, each proved for three fully symbolic values']
    make_strong(P)
    for t in TYPES:
        make_type(P, t)
    make_grid(P)
    make_ptr(P)
    make_record_perm(P)
    make_iso(P)
    return P


def make_ptr(P):
    """pointer-like wrappers expose exactly the wrapped object: scenario functions returning a violation mask (lemma jobs, heap, no --dfcc)"""
    SC = {'vf_unique': ('ptr', ['make_unique_ptr holds the value', 'get_pointer() is the address of the object', 'moving the unique_ptr moves ownership, the object stays', 'unique_ptr_to_const keeps the object']),
          'vf_recursive': ('ptr', ['recursive holds the value', 'a copy is equal and independent (deep copy)', 'writes through get() affect only that object', '== compares the wrapped values', 'copy assignment is deep', 'move keeps the value']),
          'vf_reference': ('ptr', ['reference refers to the object it was made from', 'writes go to the referenced object', 'a copy refers to the same object', 'assignment rebinds only the assigned reference']),
          'vf_shared': ('shared', ['make_shared_ptr: value, unique, use_count 1', 'a copy shares the object (use_count 2)', 'writes are visible through every owner', '==, !=, < compare the pointers (equal for owners of one object)', 'use_count drops when an owner dies',
                                   'distinct objects compare unequal and are totally ordered', 'a weak_ptr does not own', 'weak_ptr::lock yields an owner of the same object', 'moving keeps the object', 'the object dies with its last owner: weak_ptr expired, lock yields nothing'])}
    units = {}
    for f, (un, msgs) in SC.items():
        h = 'void h_%s(void){ VF_IN(u32, x); VF_IN(u32, y); u32 bad = %s(x, y);\n' % (f[3:], f) + ''.join('  __CPROVER_assert((bad & %du) == 0, "%s");\n' % (1 << k, m) for k, m in enumerate(msgs)) + '  VF_PROBE(); }\n'
        units.setdefault(un, []).append((f, h, msgs))
    for un, lst in units.items():
        P.generated['%s_h.c' % un] = ''.join(h for _, h, _ in lst)
        u = P.unit(un, un + '.cpp', harness=['%s_h.c' % un], inline=True)
        for f, h, msgs in lst:
            u.lemma('h_' + f[3:], cls='B', unwind=4, mem=16, bound='one scenario with symbolic values (heap objects: new/delete, control block)', backends=['sat'], cbmc=['--slice-formula', '--memory-leak-check'], timeout=900, what='%s: %s' % (f[3:], '; '.join(msgs)))


def make_grid(P):
    """grid<int,2> on std::vector storage: bounded stand-in, extents <= 2 per dimension (<= 4 cells), contents symbolic"""
    shim = '''#include <cstddef>
#include <fcppt/container/grid/object.hpp>
#include <fcppt/container/grid/comparison.hpp>
namespace g = fcppt::container::grid;
using grid2 = g::object<int, 2>;
static grid2 mk(std::size_t w, std::size_t h, int c0, int c1, int c2, int c3){ grid2 r{grid2::dim{w, h}, 0}; int const cs[4] = {c0, c1, c2, c3}; unsigned k = 0; for (auto &x : r) { x = cs[k & 3]; ++k; } return r; }
#define A std::size_t w1, std::size_t h1, int a0, int a1, int a2, int a3
#define B std::size_t w2, std::size_t h2, int b0, int b1, int b2, int b3
extern "C" bool vf_grid_eq(A, B){ return mk(w1, h1, a0, a1, a2, a3) == mk(w2, h2, b0, b1, b2, b3); }
extern "C" bool vf_grid_ne(A, B){ return mk(w1, h1, a0, a1, a2, a3) != mk(w2, h2, b0, b1, b2, b3); }
extern "C" bool vf_grid_lt(A, B){ return mk(w1, h1, a0, a1, a2, a3) < mk(w2, h2, b0, b1, b2, b3); }
'''
    pre = 'w1 <= 2 && h1 <= 2 && w2 <= 2 && h2 <= 2'
    n1 = '(w1 * h1)'
    eq = '(w1 == w2 && h1 == h2 && ' + ' && '.join('(%s <= %d || a%d == b%d)' % (n1, i, i, i) for i in range(4)) + ')'
    spec = 'function vf_grid_eq\n  __CPROVER_requires(%s)\n  __CPROVER_assigns()\n  __CPROVER_ensures(__CPROVER_return_value == %s)\n' % (pre, eq)
    spec += 'function vf_grid_ne\n  __CPROVER_requires(%s)\n  __CPROVER_assigns()\n  __CPROVER_ensures(__CPROVER_return_value == !%s)\n' % (pre, eq)
    # <: size first (lexicographic on (w,h)), then cells lexicographically (signed)
    lex = '0'
    for i in reversed(range(4)):
        lex = '(%s > %d && ((i32)a%d < (i32)b%d || ((i32)a%d == (i32)b%d && %s)))' % (n1, i, i, i, i, i, lex)
    lt = '((w1 != w2 || h1 != h2) ? (w1 < w2 || (w1 == w2 && h1 < h2)) : %s)' % lex
    spec += 'function vf_grid_lt\n  __CPROVER_requires(%s)\n  __CPROVER_assigns()\n  __CPROVER_ensures(__CPROVER_return_value == %s)\n' % (pre, lt)
    P.generated['grid.cpp'] = shim
    P.generated['grid.spec'] = spec
    u = P.unit('grid', 'grid.cpp', specs=['grid.spec'], inline=True)
    bnd = 'grid<int,2> with extents <= 2 per dimension (<= 4 cells on std::vector storage), cell contents symbolic'
    for f, what in (('vf_grid_eq', '== holds exactly when shape and all cells are equal'), ('vf_grid_ne', '!= is its negation'), ('vf_grid_lt', '< orders by size, then cells lexicographically (a strict total order compatible with ==)')):
        u.contract(f, cls='B', unwind=6, bound=bnd, backends=['sat', 'cvc5'], timeout=900, what='grid: ' + what)


def make_strong(P):
    shim = '''#include <fcppt/strong_typedef.hpp>
#include <fcppt/strong_typedef_arithmetic.hpp>
#include <fcppt/strong_typedef_bitwise.hpp>
#include <fcppt/strong_typedef_assignment.hpp>
#include <fcppt/strong_typedef_comparison.hpp>
'''
    spec = ''
    jobs = []
    for (n, t, cn, w, sg) in (('i32', 'int', 'i32', 32, True), ('u32', 'unsigned', 'u32', 32, False), ('i64', 'long', 'i64', 64, True)):
        shim += 'using S_%s = fcppt::strong_typedef<%s, struct tag_%s>;\n' % (n, t, n)
        S = 'S_%s' % n
        c = (lambda x: '((%s)%s)' % (cn, x))
        for (op, nm, ovf) in (('+', 'add', 'plus'), ('-', 'sub', 'minus'), ('*', 'mul', 'mult'), ('&', 'and', None), ('|', 'or', None), ('^', 'xor', None)):
            for form in ('', '_assign'):
                f = 'vf_%s%s_%s' % (nm, form, n)
                if form:
                    shim += 'extern "C" %s %s(%s a, %s b){ %s x{a}; x %s= %s{b}; return x.get(); }\n' % (t, f, t, t, S, op, S)
                else:
                    shim += 'extern "C" %s %s(%s a, %s b){ return (%s{a} %s %s{b}).get(); }\n' % (t, f, t, t, S, op, S)
                spec += 'function %s\n' % f
                if sg and ovf:
                    spec += '  __CPROVER_requires(!__CPROVER_overflow_%s(%s, %s))\n' % (ovf, c('a'), c('b'))
                rhs = ('VF_MUL%d(a, b)' % w) if op == '*' else '(u%d)(%s %s %s)' % (w, c('a'), op, c('b'))
                spec += '  __CPROVER_assigns()\n  __CPROVER_ensures(__CPROVER_return_value == %s)\n' % rhs
                jobs.append((f, 'strong_typedef operator%s%s gives the wrapped result of the same operator on the underlying values' % (op, '=' if form else '')))
        for (op, nm) in (('<', 'lt'), ('<=', 'le'), ('>', 'gt'), ('>=', 'ge'), ('==', 'eq'), ('!=', 'ne')):
            f = 'vf_%s_%s' % (nm, n)
            shim += 'extern "C" bool %s(%s a, %s b){ return %s{a} %s %s{b}; }\n' % (f, t, t, S, op, S)
            spec += 'function %s\n  __CPROVER_assigns()\n  __CPROVER_ensures(__CPROVER_return_value == (%s %s %s))\n' % (f, c('a'), op, c('b'))
            jobs.append((f, 'strong_typedef operator%s is the underlying comparison' % op))
        for (nm, expr, pre, post) in (('neg', '(-%s{a}).get()' % S, '%s != %s' % (c('a'), '(-2147483647 - 1)' if w == 32 else '(-9223372036854775807L - 1)') if sg else '', '(u%d)(-%s)' % (w, c('a'))),
                                      ('not', '(~%s{a}).get()' % S, '', '(u%d)(~%s)' % (w, c('a'))),
                                      ('preinc', '[](%s x){ ++x; return x.get(); }(%s{a})' % (S, S), ('%s < %s' % (c('a'), '2147483647' if w == 32 else '9223372036854775807L')) if sg else '', '(u%d)(a + 1)' % w),
                                      ('postinc', '[](%s x){ auto const old = x++; return old.get() + (x.get() - old.get() == 1 ? 0 : 1); }(%s{a})' % (S, S), ('%s < %s' % (c('a'), '2147483647' if w == 32 else '9223372036854775807L')) if sg else '', 'a'),
                                      ('predec', '[](%s x){ --x; return x.get(); }(%s{a})' % (S, S), ('%s > %s' % (c('a'), '(-2147483647 - 1)' if w == 32 else '(-9223372036854775807L - 1)')) if sg else '', '(u%d)(a - 1)' % w)):
            f = 'vf_%s_%s' % (nm, n)
            shim += 'extern "C" %s %s(%s a){ return %s; }\n' % (t, f, t, expr)
            spec += 'function %s\n' % f
            if pre:
                spec += '  __CPROVER_requires(%s)\n' % pre
            spec += '  __CPROVER_assigns()\n  __CPROVER_ensures(__CPROVER_return_value == %s)\n' % post
            jobs.append((f, 'strong_typedef unary %s is the underlying operation' % nm))
    P.generated['strong.cpp'] = shim
    P.generated['strong.spec'] = spec
    u = P.unit('strong', 'strong.cpp', specs=['strong.spec'], inline=True, ufmul=True)
    for f, what in jobs:
        u.contract(f, cls='P', backends=['sat', 'cvc5'], what=what, timeout=600)


def make_type(P, t):
    n = t['n']
    ops = t['ops'].split()
    ps = t['p']

    def plist(pref):
        return ', '.join('%s %s%s' % (ct, pref, nm) for ct, nm in ps)

    def mk(pref):
        e = t['mk']
        for ct, nm in ps:
            e = e.replace('P' + nm, pref + nm)
        return e
    shim = ''.join('#include <fcppt/%s>\n' % i for i in t['inc']) + '#include <cstddef>\n#include <functional>\n' + t.get('glob', '') + '\nusing T = %s;\n' % t['t']
    shim += 'extern "C" {\n'
    opsym = {'eq': '==', 'ne': '!=', 'lt': '<'}
    for o in ops:
        if o == 'hash':
            shim += 'std::size_t vf_hash_%s(%s){ T const X{%s}; return %s; }\n' % (n, plist('a'), mk('a'), t['hash'])
        else:
            shim += 'bool vf_%s_%s(%s, %s){ T const x{%s}; T const y{%s}; return x %s y; }\n' % (o, n, plist('a'), plist('b'), mk('a'), mk('b'), opsym[o])
    shim += '}\n'

    def pre(pref):
        r = []
        if 'norm' in t:
            r.append('(' + ' '.join((pref + tok if tok in [nm for _, nm in ps] else tok) for tok in t['norm'].split()) + ')')
        if 'pre' in t:
            e = t['pre']
            for ct, nm in ps:
                e = e.replace('P' + nm, pref + nm)
            r.append('(' + e + ')')
        return r
    eqspec = t['eq']
    spec = ''
    jobs = []
    req = pre('a') + pre('b')
    if 'eq' in ops:
        spec += 'function vf_eq_%s\n' % n + ''.join('  __CPROVER_requires(%s)\n' % r for r in req) + '  __CPROVER_assigns()\n  __CPROVER_ensures(__CPROVER_return_value == %s)\n' % eqspec
        jobs.append(('vf_eq_%s' % n, '== holds exactly when all observable components are equal'))
    if 'ne' in ops:
        spec += 'function vf_ne_%s\n' % n + ''.join('  __CPROVER_requires(%s)\n' % r for r in req) + '  __CPROVER_assigns()\n  __CPROVER_ensures(__CPROVER_return_value == !%s)\n' % eqspec
        jobs.append(('vf_ne_%s' % n, '!= is the negation of =='))
    # lemma harness: three symbolic values
    decl = lambda pref: ' '.join('%s %s%s;' % (CT[ct], pref, nm) for ct, nm in ps)
    args = lambda pref: ', '.join(pref + nm for ct, nm in ps)
    assume = ''.join('  __CPROVER_assume(%s);\n' % r for pref in 'abc' for r in pre(pref))
    LT = lambda x, y: 'vf_lt_%s(%s, %s)' % (n, args(x), args(y))
    EQ = lambda x, y: 'vf_eq_%s(%s, %s)' % (n, args(x), args(y))
    h = 'void h_order_%s(void){\n  %s %s %s\n%s' % (n, decl('a'), decl('b'), decl('c'), assume)
    if 'lt' in ops:
        h += '  _Bool ab = %s, ba = %s, bc = %s, cb = %s, ac = %s, ca = %s, aa = %s;\n' % (LT('a', 'b'), LT('b', 'a'), LT('b', 'c'), LT('c', 'b'), LT('a', 'c'), LT('c', 'a'), LT('a', 'a'))
        h += '  __CPROVER_assert(!aa, "< is irreflexive");\n'
        h += '  __CPROVER_assert(!(ab && ba), "< is asymmetric");\n'
        h += '  __CPROVER_assert(VF_IMP(ab && bc, ac), "< is transitive");\n'
        h += '  __CPROVER_assert(VF_IMP(!ab && !ba && !bc && !cb, !ac && !ca), "incomparability under < is transitive (strict weak order)");\n'
        h += '  __CPROVER_assert(VF_IMP(%s, !ab && !ba), "a == b implies neither a < b nor b < a");\n' % EQ('a', 'b')
        h += '  __CPROVER_assert(VF_IMP(!ab && !ba, %s), "values incomparable under < are == (total order on the component tuple)");\n' % EQ('a', 'b')
    if 'hash' in ops:
        h += '  __CPROVER_assert(VF_IMP(%s, vf_hash_%s(%s) == vf_hash_%s(%s)), "equal values have equal hashes");\n' % (EQ('a', 'b'), n, args('a'), n, args('b'))
    h += '  __CPROVER_assert(%s, "== is reflexive");\n' % EQ('a', 'a')
    h += '  __CPROVER_assert(%s == %s, "== is symmetric");\n' % (EQ('a', 'b'), EQ('b', 'a'))
    h += '  __CPROVER_assert(VF_IMP(%s && %s, %s), "== is transitive");\n' % (EQ('a', 'b'), EQ('b', 'c'), EQ('a', 'c'))
    h += '  VF_PROBE();\n}\n'
    P.generated['t_%s.cpp' % n] = shim
    P.generated['t_%s.spec' % n] = spec
    P.generated['t_%s_h.c' % n] = h
    u = P.unit('t_' + n, 't_%s.cpp' % n, specs=['t_%s.spec' % n], harness=['t_%s_h.c' % n], inline=True)
    for f, what in jobs:
        u.contract(f, cls='P', backends=['sat', 'cvc5'], what='%s: %s' % (t['t'], what), timeout=600)
    u.lemma('h_order_%s' % n, cls='P', backends=['sat', 'cvc5'], native=False, timeout=900,
            what='%s: == is an equivalence%s%s, for three fully symbolic values' % (t['t'], ', < is a strict weak (total) order compatible with ==' if 'lt' in ops else '', ', equal values hash equally' if 'hash' in ops else ''))


def make_record_perm(P):
    """== / != between EQUIVALENT records whose elements are declared in a different order (same labels, same value types): per label, not per position"""
    shim = """#include <fcppt/record/object.hpp>
#include <fcppt/record/comparison.hpp>
#include <fcppt/record/element.hpp>
#include <fcppt/record/make_label.hpp>
FCPPT_RECORD_MAKE_LABEL(la);
FCPPT_RECORD_MAKE_LABEL(lb);
FCPPT_RECORD_MAKE_LABEL(lc);
namespace r = fcppt::record;
using r_ab = r::object<r::element<la, int>, r::element<lb, int>>; using r_ba = r::object<r::element<lb, int>, r::element<la, int>>;
using r_abc = r::object<r::element<la, int>, r::element<lb, int>, r::element<lc, int>>; using r_cab = r::object<r::element<lc, int>, r::element<la, int>, r::element<lb, int>>;
extern "C" bool vf_rec_perm_eq(int ax, int ay, int bx, int by){ return r_ab{la{} = ax, lb{} = ay} == r_ba{lb{} = by, la{} = bx}; }
extern "C" bool vf_rec_perm_ne(int ax, int ay, int bx, int by){ return r_ab{la{} = ax, lb{} = ay} != r_ba{lb{} = by, la{} = bx}; }
extern "C" bool vf_rec_perm3_eq(int ax, int ay, int az, int bx, int by, int bz){ return r_abc{la{} = ax, lb{} = ay, lc{} = az} == r_cab{lc{} = bz, la{} = bx, lb{} = by}; }
"""
    spec = 'function vf_rec_perm_eq\n  __CPROVER_assigns()\n  __CPROVER_ensures(__CPROVER_return_value == (ax == bx && ay == by))\n'
    spec += 'function vf_rec_perm_ne\n  __CPROVER_assigns()\n  __CPROVER_ensures(__CPROVER_return_value == !(ax == bx && ay == by))\n'
    spec += 'function vf_rec_perm3_eq\n  __CPROVER_assigns()\n  __CPROVER_ensures(__CPROVER_return_value == (ax == bx && ay == by && az == bz))\n'
    P.generated['recperm.cpp'] = shim
    P.generated['recperm.spec'] = spec
    u = P.unit('recperm', 'recperm.cpp', specs=['recperm.spec'], inline=True)
    for f in ('vf_rec_perm_eq', 'vf_rec_perm_ne', 'vf_rec_perm3_eq'):
        u.contract(f, cls='P', backends=['sat', 'cvc5'], timeout=600, what='record == / != between equivalent records with permuted element order: holds exactly when the elements with the same LABEL are equal')


def make_iso(P):
    """type_iso: decorate / undecorate expose exactly the wrapped value (strong typedef, enum, plain type)"""
    shim = """#include <fcppt/make_strong_typedef.hpp>
#include <fcppt/strong_typedef.hpp>
#include <fcppt/type_iso/decorate.hpp>
#include <fcppt/type_iso/undecorate.hpp>
#include <fcppt/type_iso/undecorated_type.hpp>
#include <fcppt/type_iso/strong_typedef.hpp>
#include <fcppt/type_iso/enum.hpp>
FCPPT_MAKE_STRONG_TYPEDEF(int, sint);
FCPPT_MAKE_STRONG_TYPEDEF(sint, ssint);
enum class E5 { a, b, c, d, e, fcppt_maximum = e };
namespace ti = fcppt::type_iso;
extern "C" {
int vf_iso_strong(int v, int *round){ sint const s{ti::decorate<sint>(v)}; *round = ti::undecorate(s); return s.get(); }
int vf_iso_nested(int v, int *round){ ssint const s{ti::decorate<ssint>(v)}; *round = ti::undecorate(s); return s.get().get(); }
unsigned vf_iso_enum(unsigned v, unsigned *round){ E5 const e{ti::decorate<E5>(static_cast<fcppt::type_iso::undecorated_type<E5>>(v))}; *round = static_cast<unsigned>(ti::undecorate(e)); return static_cast<unsigned>(e); }
int vf_iso_plain(int v){ return ti::undecorate(ti::decorate<int>(v)); }
}
"""
    spec = ''
    for f in ('vf_iso_strong', 'vf_iso_nested'):
        spec += 'function %s\n  __CPROVER_requires(__CPROVER_is_fresh(round, 4))\n  __CPROVER_assigns(*round)\n  __CPROVER_ensures(__CPROVER_return_value == v && *round == v)\n' % f
    spec += 'function vf_iso_enum\n  __CPROVER_requires(__CPROVER_is_fresh(round, 4) && v < 5)\n  __CPROVER_assigns(*round)\n  __CPROVER_ensures(__CPROVER_return_value == v && *round == v)\n'
    spec += 'function vf_iso_plain\n  __CPROVER_assigns()\n  __CPROVER_ensures(__CPROVER_return_value == v)\n'
    P.generated['iso.cpp'] = shim
    P.generated['iso.spec'] = spec
    u = P.unit('iso', 'iso.cpp', specs=['iso.spec'], inline=True)
    for f, what in (('vf_iso_strong', 'strong typedef'), ('vf_iso_nested', 'nested strong typedef (undecorate strips every layer)'), ('vf_iso_enum', 'enum (underlying enumerator index)'), ('vf_iso_plain', 'plain type (identity)')):
        u.contract(f, cls='P', backends=['sat', 'cvc5'], timeout=600, what='type_iso decorate / undecorate expose exactly the wrapped value and are mutually inverse: ' + what)
