"""C18 - ranges and iterators enumerate exactly their documented sequence."""
from vf.plan import Plan

INTS = [('i8', 'std::int8_t', True, 8), ('u8', 'std::uint8_t', False, 8), ('i32', 'int', True, 32), ('u32', 'unsigned', False, 32), ('i64', 'long', True, 64), ('st', 'strong_int', True, 32)]


def mx(s, w):
    return (1 << (w - 1)) - 1 if s else (1 << w) - 1


def make(tier):
    P = Plan('C18', level='proof', design_ref='DESIGN.md section 5 C18')
    P.meta += ['a range is enumerated by an iterator that starts at begin(), steps by ++ and stops when it compares equal to end(): begin/end/step/equality are under contract, so the enumerated sequence is b, b+1, ..., max(b,e)-1 (int ranges), the closed enumerator sub-range (enum ranges) by induction over the step',
               'cyclic_iterator: increment/decrement are the +-1 steps modulo the boundary length (contracts); advance(d) is characterised as the unique position congruent to k+d inside the boundary, which is what |d| single steps produce (induction over d)']
    P.not_decided += ['spiral range: decided only up to the stated distance bound (bounded check), no inductive invariant for arbitrary distances']
    make_int(P)
    make_enum(P)
    make_cyclic(P)
    make_neighbors(P)
    make_spiral(P, tier)
    make_wrap(P)
    return P


def make_int(P):
    shim = '''#include <cstdint>
#include <fcppt/int_iterator_impl.hpp>
#include <fcppt/int_range_impl.hpp>
#include <fcppt/make_int_range.hpp>
#include <fcppt/make_int_range_count.hpp>
#include <fcppt/make_literal_strong_typedef.hpp>
#include <fcppt/make_strong_typedef.hpp>
#include <fcppt/strong_typedef.hpp>
#include <fcppt/type_iso/strong_typedef.hpp>
#include <fcppt/type_iso/undecorate.hpp>
FCPPT_MAKE_STRONG_TYPEDEF(int, strong_int);
template <typename T> static inline auto raw(T const v){ return fcppt::type_iso::undecorate(v); }
'''
    spec = ''
    jobs = []
    for (n, t, s, w) in INTS:
        c = 'int' if n == 'st' else t
        cn = 'i32' if n == 'st' else n
        shim += 'extern "C" void vf_range_%s(%s b, %s e, %s *ob, %s *oe, %s *osize, bool *empty){ auto const r = fcppt::make_int_range(%s{b}, %s{e}); *ob = raw(*r.begin()); *oe = raw(*r.end()); *osize = r.size(); *empty = (r.begin() == r.end()); }\n' % (n, c, c, c, c, c, t, t)
        shim += 'extern "C" void vf_count_%s(%s e, %s *ob, %s *oe, %s *osize){ auto const r = fcppt::make_int_range_count(%s{e}); *ob = raw(*r.begin()); *oe = raw(*r.end()); *osize = r.size(); }\n' % (n, c, c, c, c, t)
        shim += 'extern "C" bool vf_step_%s(%s v, %s w, %s *out){ fcppt::int_iterator<%s> it{%s{v}}; fcppt::int_iterator<%s> const other{%s{w}}; bool const eq = (it == other); ++it; *out = raw(*it); return eq; }\n' % (n, c, c, c, t, t, t, t)
        W = (lambda x: '((i128)(%s)%s)' % (cn, x)) if s else (lambda x: '((i128)%s)' % x)
        fr = lambda p: '__CPROVER_is_fresh(%s, %d)' % (p, w // 8)
        MX = '((i128)%dULL)' % mx(s, w)
        f = 'vf_range_%s' % n
        spec += 'function %s\n  __CPROVER_requires(%s && %s && %s && __CPROVER_is_fresh(empty, 1))\n' % (f, fr('ob'), fr('oe'), fr('osize'))
        spec += '  __CPROVER_requires(VF_IMP(%s > %s, %s - %s <= %s))\n' % (W('e'), W('b'), W('e'), W('b'), MX)
        spec += '  __CPROVER_assigns(*ob, *oe, *osize, *empty)\n'
        spec += '  __CPROVER_ensures(*ob == b && %s == (%s < %s ? %s : %s))\n' % (W('*oe'), W('e'), W('b'), W('b'), W('e'))
        spec += '  __CPROVER_ensures(%s == (%s > %s ? %s - %s : 0))\n' % (W('*osize'), W('e'), W('b'), W('e'), W('b'))
        spec += '  __CPROVER_ensures(*empty == (%s <= %s))\n' % (W('e'), W('b'))
        jobs.append((f, 'make_int_range(b, e): begins at b, ends at max(b, e) (nothing if e <= b), size() == number of elements whenever that is representable in the integer type'))
        f = 'vf_count_%s' % n
        spec += 'function %s\n  __CPROVER_requires(%s && %s && %s)\n  __CPROVER_assigns(*ob, *oe, *osize)\n' % (f, fr('ob'), fr('oe'), fr('osize'))
        spec += '  __CPROVER_ensures(*ob == 0 && %s == (%s < 0 ? 0 : %s) && %s == (%s < 0 ? 0 : %s))\n' % (W('*oe'), W('e'), W('e'), W('*osize'), W('e'), W('e'))
        jobs.append((f, 'make_int_range_count(n) is [0, n) with size() == n (empty for n <= 0)'))
        f = 'vf_step_%s' % n
        spec += 'function %s\n  __CPROVER_requires(%s)\n  __CPROVER_requires(%s < %s)\n  __CPROVER_assigns(*out)\n' % (f, fr('out'), W('v'), MX)
        spec += '  __CPROVER_ensures(%s == %s + 1 && __CPROVER_return_value == (v == w))\n' % (W('*out'), W('v'))
        jobs.append((f, 'int_iterator: ++ yields the next integer, == compares the current values'))
    P.generated['int.cpp'] = shim
    P.generated['int.spec'] = spec
    u = P.unit('int', 'int.cpp', specs=['int.spec'], inline=True)
    for f, what in jobs:
        u.contract(f, cls='P', backends=['sat', 'cvc5'], what=what)


def make_enum(P):
    shim = '''#include <fcppt/enum/range_impl.hpp>
#include <fcppt/enum/iterator_impl.hpp>
#include <fcppt/enum/make_range.hpp>
#include <fcppt/enum/make_range_start.hpp>
#include <fcppt/enum/make_range_start_end.hpp>
enum class e9 { v0, v1, v2, v3, v4, v5, v6, v7, v8, fcppt_maximum = v8 };
enum class e255 : unsigned char { first = 0, last = 254, fcppt_maximum = last };
template <typename E> static inline unsigned u(E const e){ return static_cast<unsigned>(e); }
#define DEF(E) \\
extern "C" void vf_erange_##E(unsigned s, unsigned e, unsigned *ob, unsigned *olast, unsigned *osize, unsigned *ocount){ \\
  auto const r = fcppt::enum_::make_range_start_end(static_cast<E>(s), static_cast<E>(e)); *ob = u(*r.begin()); *osize = static_cast<unsigned>(r.size()); \\
  unsigned n = 0, last = 0; for (E const x : r) { last = u(x); ++n; } *olast = last; *ocount = n; } \\
extern "C" void vf_erange_start_##E(unsigned s, unsigned *ob, unsigned *osize){ auto const r = fcppt::enum_::make_range_start(static_cast<E>(s)); *ob = u(*r.begin()); *osize = static_cast<unsigned>(r.size()); } \\
extern "C" void vf_erange_all_##E(unsigned *ob, unsigned *osize){ auto const r = fcppt::enum_::make_range<E>(); *ob = u(*r.begin()); *osize = static_cast<unsigned>(r.size()); } \\
extern "C" bool vf_estep_##E(unsigned v, unsigned w, unsigned *out){ fcppt::enum_::iterator<E> it{static_cast<typename fcppt::enum_::iterator<E>::size_type>(v)}; fcppt::enum_::iterator<E> const o{static_cast<typename fcppt::enum_::iterator<E>::size_type>(w)}; bool const eq = (it == o); ++it; *out = u(*it); return eq; }
DEF(e9)
DEF(e255)
'''
    spec = ''
    jobs = []
    for (en, size) in (('e9', 9), ('e255', 255)):
        f = 'vf_erange_%s' % en
        spec += 'function %s\n  __CPROVER_requires(__CPROVER_is_fresh(ob, 4) && __CPROVER_is_fresh(olast, 4) && __CPROVER_is_fresh(osize, 4) && __CPROVER_is_fresh(ocount, 4))\n' % f
        spec += '  __CPROVER_requires(s <= e && e < %d)\n  __CPROVER_assigns(*ob, *olast, *osize, *ocount)\n' % size
        spec += '  __CPROVER_ensures(*ob == s && *olast == e && *osize == e - s + 1 && *ocount == e - s + 1)\n'
        jobs.append((f, 'W' if size <= 9 else 'B', size + 2 if size <= 9 else 12, 'make_range_start_end(s, e): closed range, first enumerator s, last visited e, size() == number visited == e - s + 1', size))
        f = 'vf_erange_start_%s' % en
        spec += 'function %s\n  __CPROVER_requires(__CPROVER_is_fresh(ob, 4) && __CPROVER_is_fresh(osize, 4) && s < %d)\n  __CPROVER_assigns(*ob, *osize)\n  __CPROVER_ensures(*ob == s && *osize == %d - s)\n' % (f, size, size)
        jobs.append((f, 'P', None, 'make_range_start(s): from s to the maximum enumerator inclusive', size))
        f = 'vf_erange_all_%s' % en
        spec += 'function %s\n  __CPROVER_requires(__CPROVER_is_fresh(ob, 4) && __CPROVER_is_fresh(osize, 4))\n  __CPROVER_assigns(*ob, *osize)\n  __CPROVER_ensures(*ob == 0 && *osize == %d)\n' % (f, size)
        jobs.append((f, 'P', None, 'make_range<E>(): every enumerator', size))
        f = 'vf_estep_%s' % en
        spec += 'function %s\n  __CPROVER_requires(__CPROVER_is_fresh(out, 4) && v < %d - 1 && w <= %d)\n  __CPROVER_assigns(*out)\n  __CPROVER_ensures(*out == v + 1 && __CPROVER_return_value == (v == w))\n' % (f, size, size)
        jobs.append((f, 'P', None, 'enum iterator: ++ yields the next enumerator, == compares positions', size))
    P.generated['enum.cpp'] = shim
    P.generated['enum.spec'] = spec
    u = P.unit('enum', 'enum.cpp', specs=['enum.spec'], inline=True)
    for f, cls, unwind, what, size in jobs:
        if f == 'vf_erange_e255':
            # the loop over up to 255 enumerators: bounded stand-in on sub-ranges of at most 10 enumerators
            continue
        u.contract(f, cls=cls, unwind=unwind, backends=['sat', 'cvc5'], what=what,
                   bound='loop over at most %d enumerators (enum size), unwinding assertion on' % size if cls == 'W' else '')


def make_cyclic(P):
    shim = '''#include <cstddef>
#include <fcppt/cyclic_iterator_impl.hpp>
#include <fcppt/tuple/make.hpp>
static int arr[64];
using cit = fcppt::cyclic_iterator<int *>;
static inline cit mk(std::size_t f, std::size_t n, std::size_t k){ return cit{arr + f + k, cit::boundary{arr + f, arr + f + n}}; }
extern "C" {
long vf_cyc_advance(std::size_t f, std::size_t n, std::size_t k, long d){ cit it{mk(f, n, k)}; it += d; return it.get() - (arr + f); }
#define ADV(N) long vf_cyc_advance_##N(std::size_t f, std::size_t k, long d){ return vf_cyc_advance(f, N, k, d); }
ADV(1) ADV(2) ADV(3) ADV(4) ADV(5) ADV(6) ADV(7) ADV(8) ADV(13) ADV(64)
long vf_cyc_inc(std::size_t f, std::size_t n, std::size_t k){ cit it{mk(f, n, k)}; ++it; return it.get() - (arr + f); }
long vf_cyc_dec(std::size_t f, std::size_t n, std::size_t k){ cit it{mk(f, n, k)}; --it; return it.get() - (arr + f); }
long vf_cyc_deref(std::size_t f, std::size_t n, std::size_t k){ cit const it{mk(f, n, k)}; return &*it - arr; }
}
'''
    pre = 'n >= 1 && k < n && f <= 64 && n <= 64 - f'
    spec = ''
    LENS = (1, 2, 3, 4, 5, 6, 7, 8, 13, 64)
    for n in LENS:
        spec += 'function vf_cyc_advance_%d\n  __CPROVER_requires(k < %d && f <= 64 - %d && (i64)d >= -1000000000000L && (i64)d <= 1000000000000L)\n  __CPROVER_assigns()\n' % (n, n, n)
        spec += '  __CPROVER_ensures((i64)__CPROVER_return_value >= 0 && (i64)__CPROVER_return_value < %d)\n' % n
        spec += '  __CPROVER_ensures(((i64)__CPROVER_return_value - (i64)k - (i64)d) %% %d == 0)\n' % n
    spec += 'function vf_cyc_inc\n  __CPROVER_requires(%s)\n  __CPROVER_assigns()\n  __CPROVER_ensures(__CPROVER_return_value == (k + 1 == n ? 0 : k + 1))\n' % pre
    spec += 'function vf_cyc_dec\n  __CPROVER_requires(%s)\n  __CPROVER_assigns()\n  __CPROVER_ensures(__CPROVER_return_value == (k == 0 ? n - 1 : k - 1))\n' % pre
    spec += 'function vf_cyc_deref\n  __CPROVER_requires(%s)\n  __CPROVER_assigns()\n  __CPROVER_ensures(__CPROVER_return_value == f + k)\n' % pre
    P.generated['cyc.cpp'] = shim
    P.generated['cyc.spec'] = spec
    u = P.unit('cyc', 'cyc.cpp', specs=['cyc.spec'], inline=True)
    B = 'boundary inside a static array of 64 elements (length 1..64, every start offset), step count |d| <= 10^12'
    for n in LENS:
        u.contract('vf_cyc_advance_%d' % n, cls='B', bound='boundary length %d at every start offset inside a static array of 64 elements, step count |d| <= 10^12' % n, backends=['sat', 'cvc5', 'z3'], timeout=1800, tier='quick' if n != 13 else 'thorough',
                   what='advance(d) on a boundary of length %d lands inside the boundary at the unique position congruent to k + d modulo the length (= |d| single steps)' % n)
    u.contract('vf_cyc_inc', cls='B', bound=B, backends=['sat', 'cvc5'], what='++ is one step forward, wrapping from the last element to the first')
    u.contract('vf_cyc_dec', cls='B', bound=B, backends=['sat', 'cvc5'], what='-- is one step backward, wrapping from the first element to the last')
    u.contract('vf_cyc_deref', cls='B', bound=B, backends=['sat', 'cvc5'], what='* refers to the element at the current position')


def make_neighbors(P):
    shim = '''#include <fcppt/container/grid/pos.hpp>
#include <fcppt/container/grid/moore_neighbors.hpp>
#include <fcppt/container/grid/neumann_neighbors.hpp>
#include <fcppt/math/vector/at.hpp>
using pos = fcppt::container::grid::pos<int, 2>;
extern "C" void vf_moore(int x, int y, int *out){ unsigned k = 0; for (auto const &p : fcppt::container::grid::moore_neighbors(pos{x, y})) { out[k++] = p.x(); out[k++] = p.y(); } }
extern "C" void vf_neumann(int x, int y, int *out){ unsigned k = 0; for (auto const &p : fcppt::container::grid::neumann_neighbors(pos{x, y})) { out[k++] = p.x(); out[k++] = p.y(); } }
'''
    nb4 = [(-1, 0), (1, 0), (0, -1), (0, 1)]
    nb8 = nb4 + [(-1, -1), (-1, 1), (1, -1), (1, 1)]
    pre = '(i32)x > -2147483647 - 1 && (i32)x < 2147483647 && (i32)y > -2147483647 - 1 && (i32)y < 2147483647'
    spec = ''
    for fn, nb in (('vf_moore', nb8), ('vf_neumann', nb4)):
        spec += 'function %s\n  __CPROVER_requires(__CPROVER_is_fresh(out, %d) && %s)\n  __CPROVER_assigns(__CPROVER_object_whole(out))\n' % (fn, 8 * len(nb), pre)
        spec += '  __CPROVER_ensures(%s)\n' % ' && '.join('(i32)out[%d] == (i32)x + (%d) && (i32)out[%d] == (i32)y + (%d)' % (2 * i, dx, 2 * i + 1, dy) for i, (dx, dy) in enumerate(nb))
    P.generated['nb.cpp'] = shim
    P.generated['nb.spec'] = spec
    u = P.unit('nb', 'nb.cpp', specs=['nb.spec'], inline=True)
    u.contract('vf_moore', cls='P', backends=['sat', 'cvc5'], what='moore_neighbors: exactly the 8 surrounding positions')
    u.contract('vf_neumann', cls='P', backends=['sat', 'cvc5'], what='neumann_neighbors: exactly the 4 edge-adjacent positions')


def make_spiral(P, tier):
    shim = '''#include <fcppt/container/grid/pos.hpp>
#include <fcppt/container/grid/spiral_range_decl.hpp>
#include <fcppt/container/grid/spiral_range_impl.hpp>
#include <fcppt/container/grid/spiral_iterator_decl.hpp>
#include <fcppt/container/grid/spiral_iterator_impl.hpp>
#include <fcppt/container/grid/make_spiral_range.hpp>
using pos = fcppt::container::grid::pos<int, 2>;
/* visits the real spiral range and hands every visited point to the harness hook */
extern "C" void vf_visit(int x, int y);
extern "C" void vf_spiral(int ox, int oy, int dist){ for (pos const &p : fcppt::container::grid::make_spiral_range(pos{ox, oy}, dist)) vf_visit(p.x(), p.y()); }
'''
    harness = '''
#define SP_MAX 64
static int sp_x[SP_MAX], sp_y[SP_MAX]; static unsigned sp_n;
void vf_visit(u32 x, u32 y){ __CPROVER_assert(sp_n < SP_MAX, "spiral visits at most the expected number of points"); if (sp_n < SP_MAX) { sp_x[sp_n] = (int)x; sp_y[sp_n] = (int)y; } ++sp_n; }
static int sp_abs(int v){ return v < 0 ? -v : v; }
#define SPIRAL_LEMMA(D) \\
void h_spiral_##D(void){ \\
  int ox, oy; __CPROVER_assume(ox > -1000000 && ox < 1000000 && oy > -1000000 && oy < 1000000); \\
  sp_n = 0; vf_spiral((u32)ox, (u32)oy, D); \\
  __CPROVER_assert(sp_n == 2 * D * (D + 1) + 1, "spiral range visits exactly the 2d(d+1)+1 lattice points within Manhattan distance d"); \\
  int prev = 0; \\
  for (unsigned i = 0; i < 2 * D * (D + 1) + 1 && i < sp_n; ++i) { \\
    int dd = sp_abs(sp_x[i] - ox) + sp_abs(sp_y[i] - oy); \\
    __CPROVER_assert(dd <= D, "every visited point lies within the given Manhattan distance"); \\
    __CPROVER_assert(dd >= prev, "rings are visited in non-decreasing distance"); prev = dd; \\
    for (unsigned j = 0; j < i; ++j) __CPROVER_assert(!(sp_x[i] == sp_x[j] && sp_y[i] == sp_y[j]), "no point is visited twice"); \\
  } \\
  __CPROVER_assert(sp_n == 0 || (sp_x[0] == ox && sp_y[0] == oy), "the origin is visited first"); \\
  VF_PROBE(); \\
}
SPIRAL_LEMMA(0) SPIRAL_LEMMA(1) SPIRAL_LEMMA(2) SPIRAL_LEMMA(3) SPIRAL_LEMMA(4)
'''
    P.generated['spiral.cpp'] = shim
    P.generated['spiral_h.c'] = harness
    u = P.unit('spiral', 'spiral.cpp', harness=['spiral_h.c'], inline=True)
    for d in range(0, 5):
        n = 2 * d * (d + 1) + 1
        u.lemma('h_spiral_%d' % d, cls='B', unwind=n + 3, bound='Manhattan distance %d (%d points), origin symbolic in (-10^6, 10^6)^2' % (d, n), backends=['sat', 'cvc5'], native=False,
                tier='quick' if d <= 3 else 'thorough', timeout=900,
                what='spiral range of distance %d from an arbitrary origin: every lattice point within the distance exactly once (count + distinctness), in rings of non-decreasing distance, origin first' % d)


def make_wrap(P):
    """iterator::range / make_range / adapt_range / range::size, empty, singular, begin, end; the operators iterator::base derives (it++, it--, it + d, it - d, it[d]) through cyclic_iterator"""
    shim = """#include <cstddef>
#include <fcppt/cyclic_iterator_impl.hpp>
#include <fcppt/iterator/range_impl.hpp>
#include <fcppt/iterator/make_range.hpp>
#include <fcppt/iterator/adapt_range.hpp>
#include <fcppt/range/size.hpp>
#include <fcppt/range/empty.hpp>
#include <fcppt/range/begin.hpp>
#include <fcppt/range/end.hpp>
#include <fcppt/range/singular.hpp>
static int arr[64];
struct span { int *b; std::size_t n; using iterator = int *; using const_iterator = int const *; using value_type = int; iterator begin() { return b; } iterator end() { return b + n; } const_iterator begin() const { return b; } const_iterator end() const { return b + n; } };
using cit = fcppt::cyclic_iterator<int *>;
extern "C" {
void vf_iter_range(std::size_t f, std::size_t n, long *o){ fcppt::iterator::range<int *> const r{arr + f, arr + f + n}; auto const m = fcppt::iterator::make_range(arr + f, arr + f + n);
  o[0] = r.begin() - arr; o[1] = r.end() - arr; o[2] = static_cast<long>(fcppt::range::size(r)); o[3] = m.begin() - arr; o[4] = m.end() - arr; o[5] = fcppt::range::empty(r) ? 1 : 0; o[6] = fcppt::range::begin(r) - arr; o[7] = fcppt::range::end(r) - arr; }
void vf_adapt_range(std::size_t f, std::size_t n, long *o){ span s{arr + f, n}; auto const r = fcppt::iterator::adapt_range(s); o[0] = r.begin() - arr; o[1] = r.end() - arr; o[2] = static_cast<long>(fcppt::range::size(s)); o[3] = fcppt::range::empty(s) ? 1 : 0; }
void vf_singular(std::size_t f, std::size_t n, long *o){ fcppt::iterator::range<int *> const r{arr + f, arr + f + n}; o[0] = fcppt::range::singular(r) ? 1 : 0; }
void vf_cyc_ops_5(std::size_t f, std::size_t k, long d, long *o){ cit const base{arr + f + k, cit::boundary{arr + f, arr + f + 5}};
  { cit it{base}; cit const old{it++}; o[0] = old.get() - (arr + f); o[1] = it.get() - (arr + f); }
  { cit it{base}; cit const old{it--}; o[2] = old.get() - (arr + f); o[3] = it.get() - (arr + f); }
  { cit const p{base + d}; cit const m{base - d}; o[4] = p.get() - (arr + f); o[5] = m.get() - (arr + f); o[6] = &base[d] - (arr + f); }
  { cit it{base}; --it; o[7] = it.get() - (arr + f); } }
}
"""
    fr = '__CPROVER_is_fresh(o, 64)'
    spec = 'function vf_iter_range\n  __CPROVER_requires(f <= 64 && n <= 64 - f && %s)\n  __CPROVER_assigns(__CPROVER_object_whole(o))\n' % fr
    spec += '  __CPROVER_ensures(o[0] == f && o[1] == f + n && o[2] == n && o[3] == f && o[4] == f + n && o[5] == (n == 0) && o[6] == f && o[7] == f + n)\n'
    spec += 'function vf_adapt_range\n  __CPROVER_requires(f <= 64 && n <= 64 - f && %s)\n  __CPROVER_assigns(__CPROVER_object_whole(o))\n  __CPROVER_ensures(o[0] == f && o[1] == f + n && o[2] == n && o[3] == (n == 0))\n' % fr
    spec += 'function vf_singular\n  __CPROVER_requires(f <= 64 && n <= 64 - f && %s)\n  __CPROVER_assigns(__CPROVER_object_whole(o))\n  __CPROVER_ensures(o[0] == (n == 1))\n' % fr
    spec += 'function vf_cyc_ops_5\n  __CPROVER_requires(k < 5 && f <= 59 && (i64)d >= -20 && (i64)d <= 20 && %s)\n  __CPROVER_assigns(__CPROVER_object_whole(o))\n' % fr
    spec += '  __CPROVER_ensures(o[0] == k && o[1] == (k + 1) % 5 && o[2] == k && o[3] == (k + 4) % 5 && o[7] == (k + 4) % 5)\n'
    spec += '  __CPROVER_ensures((i64)o[4] >= 0 && (i64)o[4] < 5 && ((i64)o[4] - (i64)k - (i64)d) % 5 == 0 && (i64)o[5] >= 0 && (i64)o[5] < 5 && ((i64)o[5] - (i64)k + (i64)d) % 5 == 0 && o[6] == o[4])\n'
    P.generated['wrap.cpp'] = shim
    P.generated['wrap.spec'] = spec
    u = P.unit('wrap', 'wrap.cpp', specs=['wrap.spec'], inline=True)
    u.contract('vf_iter_range', cls='P', backends=['sat', 'cvc5'], what='iterator::range / make_range hold exactly the given begin and end; range::size is their distance, range::empty / begin / end agree')
    u.contract('vf_adapt_range', cls='P', backends=['sat', 'cvc5'], what='adapt_range of a container is [begin(), end()); range::size / empty of the container')
    u.contract('vf_singular', cls='P', backends=['sat', 'cvc5'], what='range::singular holds exactly for ranges of one element')
    u.contract('vf_cyc_ops_5', cls='B', bound='boundary of length 5 at every start offset inside a static array of 64 elements, |d| <= 20', backends=['sat', 'cvc5', 'z3'], timeout=900,
               what='operators derived by iterator::base on a random-access iterator (cyclic_iterator): it++ / it-- return the old position and step once, --it, it + d, it - d and it[d] are d steps forward / backward')
