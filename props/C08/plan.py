"""C08 - grid positions, offsets and ranges form an exact row-major bijection."""
from vf.plan import Plan

AX = ['x', 'y', 'z']


def make(tier):
    P = Plan('C08', level='proof', design_ref='DESIGN.md section 5 C08')
    P.meta += ['iteration = repeated next_position from min until end_position: next_position is proved to be the lexicographic (row-major) successor with carry inside [min,sup) and to yield end_position after the last position; by induction over the successor relation the range visits every p with min <= p < sup exactly once in storage order and size() (= product of extents, proved) is the number visited',
               'bijection: offset(min of whole grid) == 0 and offset(next(p)) == offset(p) + 1 (proved for every in-range p of the whole-grid range, modulo 2^32 with the content representable) give offset = index in iteration order, hence a bijection onto [0, content)']
    P.not_decided += ['grid::interpolate, output, static_row helpers', 'resize/map/apply/fill on heap storage are bounded checks (B) on a list of concrete shapes of at most 4 cells (symbolic extents did not close), see bounded_checks']
    for N in (1, 2, 3):
        make_scalar(P, N, tier)
    for N in (2, 3):
        make_refiter(P, N, tier)
    make_heap(P, tier)
    return P


def make_refiter(P, N, tier):
    """pos_ref_iterator over the real grid::object<int, N> iterator type, on a static cell array (no heap):
    one ++ / * step from an arbitrary in-range position of an arbitrary sub-range [m, s) of a grid of size d."""
    tag = 'ref%d' % N
    R = range(N)
    B = 16 if N == 3 else 64
    cells = B ** N
    pr = lambda p: ', '.join('std::size_t %s%d' % (p, i) for i in R)
    v = lambda p: ', '.join('%s%d' % (p, i) for i in R)
    shim = '''#include <cstddef>
#include <fcppt/container/grid/object.hpp>
#include <fcppt/container/grid/pos_ref_iterator_decl.hpp>
#include <fcppt/container/grid/pos_ref_iterator_impl.hpp>
#include <fcppt/container/grid/pos_reference.hpp>
#include <fcppt/container/grid/min.hpp>
#include <fcppt/container/grid/sup.hpp>
#include <fcppt/math/vector/at.hpp>
namespace g = fcppt::container::grid;
using grid = g::object<int, %(N)d>;
using pos = grid::pos;
using dim = grid::dim;
using it_t = g::pos_ref_iterator<grid>;
static int cells[%(cells)d];
extern "C" void vf_refiter_step_%(tag)s(%(Pp)s, %(Pm)s, %(Ps)s, %(Pd)s, std::size_t *outpos, std::size_t *outoff, std::size_t *outoff0){
  it_t it{grid::iterator{cells}, it_t::pos_iterator{pos{%(p)s}, g::min<std::size_t, %(N)d>{pos{%(m)s}}, g::sup<std::size_t, %(N)d>{pos{%(s)s}}}, dim{%(d)s}};
  { auto const r0 = *it; *outoff0 = static_cast<std::size_t>(&r0.value() - cells); }
  ++it;
  auto const r = *it;
  %(put)s
  *outoff = static_cast<std::size_t>(&r.value() - cells);
}
''' % dict(N=N, tag=tag, cells=cells, Pp=pr('p'), Pm=pr('m'), Ps=pr('s'), Pd=pr('d'), p=v('p'), m=v('m'), s=v('s'), d=v('d'),
           put=' '.join('outpos[%d] = fcppt::math::vector::at<%d>(r.pos());' % (i, i) for i in R))

    def succ(i):
        carry_in = ' && '.join('p%d + 1 == s%d' % (j, j) for j in range(i)) or '1'
        carry_out = ' && '.join('p%d + 1 == s%d' % (j, j) for j in range(i + 1))
        if i == N - 1:
            return '((%s) ? p%d + 1 : p%d)' % (carry_in, i, i)
        return '((%s) ? m%d : ((%s) ? p%d + 1 : p%d))' % (carry_out, i, carry_in, i, i)

    def off(c):
        e = c(0)
        stack = 'd0'
        for i in range(1, N):
            e = '(%s + %s * %s)' % (e, c(i), stack)
            stack = '(%s * d%d)' % (stack, i)
        return e
    spec = 'function vf_refiter_step_%s\n' % tag
    spec += '  __CPROVER_requires(__CPROVER_is_fresh(outpos, %d) && __CPROVER_is_fresh(outoff, 8) && __CPROVER_is_fresh(outoff0, 8))\n' % (8 * N)
    spec += '  __CPROVER_requires(%s)\n' % ' && '.join('m%d <= p%d && p%d < s%d && s%d <= d%d && d%d <= %d' % (i, i, i, i, i, i, i, B) for i in R)
    spec += '  __CPROVER_requires(!(%s))\n' % ' && '.join('p%d + 1 == s%d' % (i, i) for i in R)
    spec += '  __CPROVER_assigns(__CPROVER_object_whole(outpos), *outoff, *outoff0)\n'
    spec += '  __CPROVER_ensures(%s)\n' % ' && '.join('outpos[%d] == %s' % (i, succ(i)) for i in R)
    spec += '  __CPROVER_ensures(*outoff0 == %s)\n' % off(lambda i: 'p%d' % i)
    spec += '  __CPROVER_ensures(*outoff == %s)\n' % off(lambda i: 'outpos[%d]' % i)
    P.generated['%s.cpp' % tag] = shim
    P.generated['%s.spec' % tag] = spec
    u = P.unit(tag, '%s.cpp' % tag, specs=['%s.spec' % tag], inline=True)
    u.contract('vf_refiter_step_%s' % tag, cls='B', bound='grid extents <= %d per dimension (static cell array of %d cells); positions, sub-range and extents otherwise symbolic' % (B, cells),
               backends=['sat', 'cvc5', 'z3'], timeout=900,
               what='pos_ref_iterator: * refers to the cell at storage offset offset(pos, size); ++ moves to the row-major successor inside the sub-range [min,sup) and * then refers to the cell of THAT position (one step from every in-range state)')


def make_scalar(P, N, tier):
    tag = 'n%d' % N
    R = range(N)
    T = 'unsigned'
    pr = lambda p: ', '.join('%s %s%d' % (T, p, i) for i in R)
    v = lambda cls, p: '%s{%s}' % (cls, ', '.join('%s%d' % (p, i) for i in R))
    shim = '''#include <fcppt/container/grid/pos.hpp>
#include <fcppt/container/grid/dim.hpp>
#include <fcppt/container/grid/min.hpp>
#include <fcppt/container/grid/sup.hpp>
#include <fcppt/container/grid/offset.hpp>
#include <fcppt/container/grid/next_position.hpp>
#include <fcppt/container/grid/end_position.hpp>
#include <fcppt/container/grid/range_size.hpp>
#include <fcppt/container/grid/range_dim.hpp>
#include <fcppt/container/grid/min_less_sup.hpp>
#include <fcppt/container/grid/in_range_dim.hpp>
#include <fcppt/container/grid/clamped_min.hpp>
#include <fcppt/container/grid/clamped_sup.hpp>
#include <fcppt/container/grid/clamped_sup_signed.hpp>
#include <fcppt/container/grid/pos_range.hpp>
#include <fcppt/container/grid/make_pos_range.hpp>
#include <fcppt/container/grid/make_pos_range_start_end.hpp>
#include <fcppt/math/vector/at.hpp>
#include <fcppt/math/dim/at.hpp>
#include <fcppt/math/vector/comparison.hpp>
using T = unsigned;
namespace g = fcppt::container::grid;
using pos = g::pos<T, %(N)d>;
using spos = g::pos<int, %(N)d>;
using dim = g::dim<T, %(N)d>;
using gmin = g::min<T, %(N)d>;
using gsup = g::sup<T, %(N)d>;
static inline void putp(pos const &p, T *out){ %(putp)s }
static inline void putd(dim const &p, T *out){ %(putd)s }
#define X(n) n##_%(tag)s
extern "C" {
T X(vf_offset)(%(Pp)s, %(Pd)s){ return g::offset(%(p)s, %(d)s); }
bool X(vf_in_range_dim)(%(Pd)s, %(Pp)s){ return g::in_range_dim(%(d)s, %(p)s); }
bool X(vf_min_less_sup)(%(Pm)s, %(Ps)s){ return g::min_less_sup(gmin{%(m)s}, gsup{%(s)s}); }
void X(vf_range_dim)(%(Pm)s, %(Ps)s, T *out){ putd(g::range_dim(gmin{%(m)s}, gsup{%(s)s}), out); }
T X(vf_range_size)(%(Pm)s, %(Ps)s){ return g::range_size(gmin{%(m)s}, gsup{%(s)s}); }
void X(vf_end_position)(%(Pm)s, %(Ps)s, T *out){ putp(g::end_position(gmin{%(m)s}, gsup{%(s)s}), out); }
void X(vf_next_position)(%(Pp)s, %(Pm)s, %(Ps)s, T *out){ putp(g::next_position(%(p)s, gmin{%(m)s}, gsup{%(s)s}), out); }
/* the iterator / range wrappers: begin, end, one increment, equality with end, size */
void X(vf_range_begin_end)(%(Pm)s, %(Ps)s, T *outb, T *oute, T *outsize){ g::pos_range<T, %(N)d> const r{gmin{%(m)s}, gsup{%(s)s}}; putp(*r.begin(), outb); putp(*r.end(), oute); *outsize = r.size(); }
bool X(vf_iter_step)(%(Pp)s, %(Pm)s, %(Ps)s, T *out){ g::pos_range<T, %(N)d> const r{gmin{%(m)s}, gsup{%(s)s}}; g::pos_iterator<T, %(N)d> it{%(p)s, gmin{%(m)s}, gsup{%(s)s}}; ++it; putp(*it, out); return it == r.end(); }
void X(vf_make_pos_range)(%(Pd)s, T *outb, T *oute, T *outsize){ auto const r{g::make_pos_range(%(d)s)}; putp(*r.begin(), outb); putp(*r.end(), oute); *outsize = r.size(); }
void X(vf_clamped_min)(%(Pq)s, T *out){ putp(g::clamped_min(spos{%(q)s}).get(), out); }
void X(vf_clamped_sup)(%(Pp)s, %(Pd)s, T *out){ putp(g::clamped_sup(%(p)s, %(d)s).get(), out); }
void X(vf_clamped_sup_signed)(%(Pq)s, %(Pd)s, T *out){ putp(g::clamped_sup_signed(spos{%(q)s}, %(d)s).get(), out); }
}
''' % dict(N=N, tag=tag, Pp=pr('p'), Pd=pr('d'), Pm=pr('m'), Ps=pr('s'), Pq=', '.join('int q%d' % i for i in R),
           p=v('pos', 'p'), d=v('dim', 'd'), m=v('pos', 'm'), s=v('pos', 's'), q=', '.join('q%d' % i for i in R),
           putp=' '.join('out[%d] = fcppt::math::vector::at<%d>(p);' % (i, i) for i in R),
           putd=' '.join('out[%d] = fcppt::math::dim::at<%d>(p);' % (i, i) for i in R))
    spec = ''
    jobs = []

    def C(fn, req, ens, assigns, what, **kw):
        nonlocal spec
        f = '%s_%s' % (fn, tag)
        spec += 'function %s\n' % f
        for r in req:
            spec += '  __CPROVER_requires(%s)\n' % r
        spec += '  __CPROVER_assigns(%s)\n' % assigns
        for e in ens:
            spec += '  __CPROVER_ensures(%s)\n' % e
        jobs.append((f, what, kw))
    FR = lambda p, n=N: '__CPROVER_is_fresh(%s, %d)' % (p, 4 * n)
    OW = lambda p: '__CPROVER_object_whole(%s)' % p
    # offset in the code's association: x + y*w + z*(w*h)
    stack = ['1']
    terms = ['p0']
    for i in range(1, N):
        stack.append('(u32)(%s * d%d)' % (stack[-1], i - 1) if stack[-1] != '1' else 'd%d' % (i - 1))
        terms.append('(u32)(p%d * %s)' % (i, stack[-1]))
    off = terms[0]
    for t in terms[1:]:
        off = '(u32)(%s + %s)' % (off, t)
    C('vf_offset', [], ['__CPROVER_return_value == %s' % off], '', 'offset(p, size) == x + y*w + z*(w*h) (row-major, modulo 2^32)', backends=['cvc5', 'z3', 'sat'], stagger=2)
    C('vf_in_range_dim', [], ['__CPROVER_return_value == (%s)' % ' && '.join('p%d < d%d' % (i, i) for i in R)], '', 'in_range_dim: every coordinate below its extent')
    MLS = '(' + ' && '.join('m%d < s%d' % (i, i) for i in R) + ')'
    C('vf_min_less_sup', [], ['__CPROVER_return_value == %s' % MLS], '', 'min_less_sup: min < sup in every component')
    C('vf_range_dim', [FR('out')], [' && '.join('out[%d] == (%s ? (u32)(s%d - m%d) : 0)' % (i, MLS, i, i) for i in R)], OW('out'), 'range_dim: sup - min per component, or 0 if any component of min is not below sup')
    # product of the range_dim components, in the code's association (the product is 0 as soon as one extent is 0)
    ext = lambda i: '(%s ? (u32)(s%d - m%d) : 0)' % (MLS, i, i)
    prod = '1'
    for i in R:
        prod = 'VF_MUL32(%s, %s)' % (prod, ext(i)) if prod != '1' else ext(i)
    C('vf_range_size', [], ['__CPROVER_return_value == %s' % prod], '', 'range_size: product of the extents (0 for an empty range)', backends=['cvc5', 'z3', 'sat'], stagger=2)
    endp = lambda i: ('m%d' % i) if i < N - 1 else ('s%d' % i)
    C('vf_end_position', [FR('out')], [' && '.join('out[%d] == (%s ? %s : m%d)' % (i, MLS, endp(i), i) for i in R)], OW('out'), 'end_position: (min_0.., sup_last) for a non-empty range, min for an empty one')
    # lexicographic successor with carry
    INR = ' && '.join('m%d <= p%d && p%d < s%d' % (i, i, i, i) for i in R)

    def succ(i):
        """expression of component i of the successor"""
        # carry into i iff all lower components are at their last value
        carry_in = ' && '.join('p%d + 1 == s%d' % (j, j) for j in range(i)) or '1'
        carry_out = ' && '.join('p%d + 1 == s%d' % (j, j) for j in range(i + 1))
        if i == N - 1:
            return '((%s) ? p%d + 1 : p%d)' % (carry_in, i, i)
        return '((%s) ? m%d : ((%s) ? p%d + 1 : p%d))' % (carry_out, i, carry_in, i, i)
    C('vf_next_position', [FR('out'), INR], [' && '.join('out[%d] == %s' % (i, succ(i)) for i in R)], OW('out'),
      'next_position: the row-major successor of an in-range position inside [min,sup): +1 in the lowest coordinate with carry to min; after the last position this is end_position')
    C('vf_iter_step', [FR('out'), INR], [' && '.join('out[%d] == %s' % (i, succ(i)) for i in R),
                                         '__CPROVER_return_value == (%s)' % ' && '.join('p%d + 1 == s%d' % (i, i) for i in R)], OW('out'),
      'pos_iterator ++ is next_position, and it compares equal to range.end() exactly after the last in-range position')
    C('vf_range_begin_end', [FR('outb'), FR('oute'), FR('outsize', 1)],
      [' && '.join('outb[%d] == m%d && oute[%d] == (%s ? %s : m%d)' % (i, i, i, MLS, endp(i), i) for i in R), '*outsize == %s' % prod],
      ', '.join(OW(x) for x in ('outb', 'oute', 'outsize')), 'pos_range: begin at min, end at end_position, size() = product of extents; an empty range has begin == end', backends=['cvc5', 'z3', 'sat'], stagger=2)
    nz = '(' + ' && '.join('d%d > 0' % i for i in R) + ')'
    extd = lambda i: '(%s ? d%d : 0)' % (nz, i)
    prodd = '1'
    for i in R:
        prodd = 'VF_MUL32(%s, %s)' % (prodd, extd(i)) if prodd != '1' else extd(i)
    C('vf_make_pos_range', [FR('outb'), FR('oute'), FR('outsize', 1)],
      [' && '.join('outb[%d] == 0 && oute[%d] == (%s ? %s : 0)' % (i, i, nz, '0' if i < N - 1 else 'd%d' % i) for i in R), '*outsize == %s' % prodd],
      ', '.join(OW(x) for x in ('outb', 'oute', 'outsize')), 'make_pos_range(size): whole-grid range from 0 to size', backends=['cvc5', 'z3', 'sat'], stagger=2)
    C('vf_clamped_min', [FR('out')], [' && '.join('out[%d] == ((i32)q%d < 0 ? 0 : q%d)' % (i, i, i) for i in R)], OW('out'), 'clamped_min: max(p, 0) per component')
    C('vf_clamped_sup', [FR('out')], [' && '.join('out[%d] == (p%d < d%d ? p%d : d%d)' % (i, i, i, i, i) for i in R)], OW('out'), 'clamped_sup: min(p, size) per component')
    C('vf_clamped_sup_signed', [FR('out'), ' && '.join('d%d <= 2147483647u' % i for i in R)],
      [' && '.join('out[%d] == ((i32)q%d < 0 ? 0 : (q%d > d%d ? d%d : q%d))' % (i, i, i, i, i, i) for i in R)], OW('out'), 'clamped_sup_signed: clamp(p, 0, size) per component (size representable as signed)')
    # lemma: offset(next(p)) == offset(p) + 1 on the whole grid
    decl = ' '.join('u32 p%d, d%d;' % (i, i) for i in R)
    args_p = ', '.join('p%d' % i for i in R)
    args_d = ', '.join('d%d' % i for i in R)
    zeros = ', '.join('0' for i in R)
    succs = ''
    for c in range(N):
        carry = ' && '.join(['p%d + 1 == d%d' % (j, j) for j in range(c)] + ['p%d + 1 < d%d' % (c, c)])
        # instances of the ring lemmas DIST/COMM/ZERO (each proved for all operands with real machine multiplication by h_arith_*)
        inst = ''
        if c == 1:
            inst = 'AX_ONE(d0); AX_DIST(p1, d0);'
        if c == 2:
            inst = 'AX_ONE(d0); AX_ZERO(d0); AX_DIST(p2, VF_MUL32(d0, d1)); AX_DIST((u32)(d1 - 1), d0); AX_COMM(d1, d0);'
        succs += '''
void h_offset_succ_%(tag)s_c%(c)d(void){
  %(decl)s u32 nx[%(N)d];
  __CPROVER_assume(%(inr)s);
  __CPROVER_assume(%(carry)s);
  %(inst)s
  vf_next_position_%(tag)s(%(ap)s, %(zeros)s, %(ad)s, nx);
  u32 o1 = vf_offset_%(tag)s(%(ap)s, %(ad)s), o2 = vf_offset_%(tag)s(%(nxs)s, %(ad)s);
  __CPROVER_assert(o2 == (u32)(o1 + 1), "offset(next_position(p)) == offset(p) + 1 on the whole-grid range");
  __CPROVER_assert(%(nxin)s, "the successor of a non-last in-range position is in range");
  VF_PROBE();
}
''' % dict(inst=inst, tag=tag, N=N, c=c, decl=decl, inr=' && '.join('p%d < d%d' % (i, i) for i in R), carry=carry,
           ap=args_p, ad=args_d, zeros=zeros, nxs=', '.join('nx[%d]' % i for i in R), nxin=' && '.join('nx[%d] < d%d' % (i, i) for i in R))
    harness = '''
#define AX_DIST(a, b) __CPROVER_assume(VF_MUL32((u32)((a) + 1), (b)) == (u32)(VF_MUL32((a), (b)) + (b)))
#define AX_COMM(a, b) __CPROVER_assume(VF_MUL32((a), (b)) == VF_MUL32((b), (a)))
#define AX_ZERO(a) __CPROVER_assume(VF_MUL32(0, (a)) == 0)
#define AX_ONE(a) __CPROVER_assume(VF_MUL32(1, (a)) == (a))
%(succs)s
void h_arith_dist(void){ u32 a, b; __CPROVER_assert(VF_MUL32((u32)(a + 1), b) == (u32)(VF_MUL32(a, b) + b), "DIST: (a+1)*b == a*b + b (mod 2^32)"); VF_PROBE(); }
void h_arith_comm(void){ u32 a, b; __CPROVER_assert(VF_MUL32(a, b) == VF_MUL32(b, a), "COMM: a*b == b*a (mod 2^32)"); VF_PROBE(); }
void h_arith_one(void){ u32 a; __CPROVER_assert(VF_MUL32(1, a) == a, "ONE: 1*a == a"); VF_PROBE(); }
void h_arith_zero(void){ u32 a; __CPROVER_assert(VF_MUL32(0, a) == 0, "ZERO: 0*a == 0"); VF_PROBE(); }
void h_offset_zero_%(tag)s(void){
  %(decl)s
  __CPROVER_assert(vf_offset_%(tag)s(%(zeros)s, %(ad)s) == 0, "offset of the first position is 0");
  VF_PROBE();
}
''' % dict(succs=succs, tag=tag, N=N, decl=decl, inr=' && '.join('p%d < d%d' % (i, i) for i in R), last=' && '.join('p%d + 1 == d%d' % (i, i) for i in R),
           ap=args_p, ad=args_d, zeros=zeros, nxs=', '.join('nx[%d]' % i for i in R), nxin=' && '.join('nx[%d] < d%d' % (i, i) for i in R))
    P.generated['grid_%s.cpp' % tag] = shim
    P.generated['grid_%s.spec' % tag] = spec
    P.generated['grid_%s_h.c' % tag] = harness
    u = P.unit(tag, 'grid_%s.cpp' % tag, specs=['grid_%s.spec' % tag], harness=['grid_%s_h.c' % tag], inline=True)
    # same shim, every non-constant product (code and contract) uninterpreted: pins operands/association of the size products
    uf = P.unit(tag + '_uf', 'grid_%s.cpp' % tag, specs=['grid_%s.spec' % tag], inline=True, ufmul=True)
    UF = ('vf_range_size', 'vf_range_begin_end', 'vf_make_pos_range')
    for f, what, kw in jobs:
        kw.setdefault('backends', ['sat', 'cvc5', 'z3'])
        if N > 1 and f.rsplit('_', 1)[0] in UF:
            uf.contract(f, cls='P', what=what + ' [products uninterpreted: holds for every binary operation in place of *]', timeout=600, **kw)
        else:
            u.contract(f, cls='P', what=what, timeout=600, **kw)
    uf.harness = ['grid_%s_h.c' % tag]
    for c in range(N):
        uf.lemma('h_offset_succ_%s_c%d' % (tag, c), cls='P', backends=['sat', 'cvc5', 'z3'], timeout=600, native=False,
                 what='offset(next_position(p)) == offset(p) + 1 (mod 2^32) for in-range p of the whole-grid range whose successor carries through %d coordinate(s); products uninterpreted, using only instances of the ring lemmas DIST/COMM/ZERO/ONE, which h_arith_* prove for machine multiplication' % c)
    if N == 1:
        for l in ('dist', 'comm', 'zero', 'one'):
            u.lemma('h_arith_' + l, cls='P', backends=['cvc5', 'z3'], stagger=1, timeout=300, native=False, what='ring lemma %s for 32-bit machine multiplication, all operands' % l.upper())
    u.lemma('h_offset_zero_%s' % tag, cls='P', backends=['sat', 'cvc5'], native=False, what='offset(0) == 0')


def make_heap(P, tier):
    """grid<int,2> on std::vector storage: apply / map / resize / fill, cell by cell. Bounded stand-in: a list of CONCRETE shapes (symbolic
    extents did not close: 900 s / 16 GB per job), cell contents symbolic."""
    shim = """#include <cstddef>
#include <fcppt/container/grid/object.hpp>
#include <fcppt/container/grid/apply.hpp>
#include <fcppt/container/grid/map.hpp>
#include <fcppt/container/grid/resize.hpp>
#include <fcppt/container/grid/fill.hpp>
#include <fcppt/container/grid/at_optional.hpp>
#include <fcppt/container/grid/in_range.hpp>
#include <fcppt/math/vector/at.hpp>
namespace g = fcppt::container::grid;
using grid2 = g::object<int, 2>;
static grid2 mk(std::size_t w, std::size_t h, int c0, int c1, int c2, int c3){ grid2 r{grid2::dim{w, h}, 0}; int const cs[4] = {c0, c1, c2, c3}; unsigned k = 0; for (auto &x : r) { x = cs[k & 3]; ++k; } return r; }
template <typename G> static void put(G const &r, std::size_t *ow, std::size_t *oh, unsigned *o){ *ow = r.size().w(); *oh = r.size().h(); unsigned k = 0; for (auto const &x : r) { if (k < 4) o[k] = static_cast<unsigned>(x); ++k; } }
#define CA int a0, int a1, int a2, int a3
#define CB int b0, int b1, int b2, int b3
#define OUT std::size_t *ow, std::size_t *oh, unsigned *o
#define APPLY(W1, H1, W2, H2) extern "C" void vf_grid_apply_##W1##H1##_##W2##H2(CA, CB, OUT){ put(g::apply([](int const a, int const b){ return static_cast<unsigned>(a) * 7U + static_cast<unsigned>(b) * 13U + 1U; }, mk(W1, H1, a0, a1, a2, a3), mk(W2, H2, b0, b1, b2, b3)), ow, oh, o); }
#define MAP(W1, H1) extern "C" void vf_grid_map_##W1##H1(CA, OUT){ put(g::map(mk(W1, H1, a0, a1, a2, a3), [](int const a){ return static_cast<unsigned>(a) * 7U + 1U; }), ow, oh, o); }
#define RESIZE(W1, H1, W2, H2) extern "C" void vf_grid_resize_##W1##H1##_##W2##H2(CA, OUT){ put(g::resize(mk(W1, H1, a0, a1, a2, a3), grid2::dim{W2, H2}, [](grid2::pos const p){ return static_cast<int>(1000U + p.x() + 10U * p.y()); }), ow, oh, o); }
#define ATOPT(W1, H1) extern "C" bool vf_grid_at_optional_##W1##H1(CA, std::size_t x, std::size_t y, int *val, bool *inr){ grid2 const r{mk(W1, H1, a0, a1, a2, a3)}; auto const e = g::at_optional(r, grid2::pos{x, y}); *inr = g::in_range(r, grid2::pos{x, y}); if (e.has_value()) *val = e.get_unsafe().get(); return e.has_value(); }
#define FILL(W1, H1) extern "C" void vf_grid_fill_##W1##H1(CA, OUT){ grid2 r{mk(W1, H1, a0, a1, a2, a3)}; g::fill(r, [](grid2::pos const p){ return static_cast<int>(100U + p.x() + 10U * p.y()); }); put(r, ow, oh, o); }
"""
    FR = '__CPROVER_is_fresh(ow, 8) && __CPROVER_is_fresh(oh, 8) && __CPROVER_is_fresh(o, 16)'
    OW = '*ow, *oh, __CPROVER_object_whole(o)'
    AA = ['a0', 'a1', 'a2', 'a3']; BB = ['b0', 'b1', 'b2', 'b3']
    spec = ''
    jobs = []
    for (w1, h1, w2, h2) in ((2, 2, 2, 2), (1, 2, 2, 1), (2, 1, 2, 1), (2, 2, 2, 1), (4, 1, 2, 2), (0, 0, 0, 1)):
        f = 'vf_grid_apply_%d%d_%d%d' % (w1, h1, w2, h2)
        shim += 'APPLY(%d, %d, %d, %d)\n' % (w1, h1, w2, h2)
        if (w1, h1) == (w2, h2):
            ens = '*ow == %d && *oh == %d && ' % (w1, h1) + ' && '.join('o[%d] == (u32)(%s * 7u + %s * 13u + 1u)' % (i, AA[i], BB[i]) for i in range(w1 * h1))
        else:
            ens = '*ow == 0 && *oh == 0'
        spec += 'function %s\n  __CPROVER_requires(%s)\n  __CPROVER_assigns(%s)\n  __CPROVER_ensures(%s)\n' % (f, FR, OW, ens)
        jobs.append((f, 'apply on grids of shapes %dx%d and %dx%d: %s' % (w1, h1, w2, h2, 'the cell-wise result' if (w1, h1) == (w2, h2) else 'different sizes (also with the same number of cells) give the empty grid')))
    for (w1, h1) in ((2, 2), (1, 2)):
        f = 'vf_grid_map_%d%d' % (w1, h1)
        shim += 'MAP(%d, %d)\n' % (w1, h1)
        spec += 'function %s\n  __CPROVER_requires(%s)\n  __CPROVER_assigns(%s)\n  __CPROVER_ensures(*ow == %d && *oh == %d && %s)\n' % (f, FR, OW, w1, h1, ' && '.join('o[%d] == (u32)(%s * 7u + 1u)' % (i, AA[i]) for i in range(w1 * h1)))
        jobs.append((f, 'map on a %dx%d grid: f on every cell, same shape' % (w1, h1)))
    for (w1, h1, w2, h2) in ((2, 1, 2, 2), (2, 2, 1, 2), (1, 1, 2, 2), (2, 2, 2, 2)):
        f = 'vf_grid_resize_%d%d_%d%d' % (w1, h1, w2, h2)
        shim += 'RESIZE(%d, %d, %d, %d)\n' % (w1, h1, w2, h2)
        cells = []
        for y in range(h2):
            for x in range(w2):
                cells.append('o[%d] == %s' % (x + y * w2, ('(u32)' + AA[x + y * w1]) if (x < w1 and y < h1) else '%du' % (1000 + x + 10 * y)))
        spec += 'function %s\n  __CPROVER_requires(%s)\n  __CPROVER_assigns(%s)\n  __CPROVER_ensures(*ow == %d && *oh == %d && %s)\n' % (f, FR, OW, w2, h2, ' && '.join(cells))
        jobs.append((f, 'resize %dx%d -> %dx%d: cells that exist in the old grid keep their value at the same POSITION, new cells are init(position)' % (w1, h1, w2, h2)))
    for (w1, h1) in ((2, 2),):
        f = 'vf_grid_fill_%d%d' % (w1, h1)
        shim += 'FILL(%d, %d)\n' % (w1, h1)
        spec += 'function %s\n  __CPROVER_requires(%s)\n  __CPROVER_assigns(%s)\n  __CPROVER_ensures(*ow == %d && *oh == %d && %s)\n' % (f, FR, OW, w1, h1, ' && '.join('o[%d] == %du' % (x + y * w1, 100 + x + 10 * y) for y in range(h1) for x in range(w1)))
        jobs.append((f, 'fill on a %dx%d grid: every cell is f(its position)' % (w1, h1)))
    for (w1, h1) in ((2, 2), (1, 2)):
        f = 'vf_grid_at_optional_%d%d' % (w1, h1)
        shim += 'ATOPT(%d, %d)\n' % (w1, h1)
        inr = '(x < %d && y < %d)' % (w1, h1)
        cellv = ' && '.join('VF_IMP(x == %d && y == %d, *val == %s)' % (x, y, AA[x + y * w1]) for y in range(h1) for x in range(w1))
        spec += 'function %s\n  __CPROVER_requires(__CPROVER_is_fresh(val, 4) && __CPROVER_is_fresh(inr, 1))\n  __CPROVER_assigns(*val, *inr)\n  __CPROVER_ensures(__CPROVER_return_value == %s && *inr == %s && %s)\n' % (f, inr, inr, cellv)
        jobs.append((f, 'at_optional on a %dx%d grid: an element exactly for in-range positions (every position value), and it is the cell at that position; in_range agrees' % (w1, h1)))
    P.generated['heap.cpp'] = shim
    P.generated['heap.spec'] = spec
    u = P.unit('heap', 'heap.cpp', specs=['heap.spec'], inline=True)
    for f, what in jobs:
        u.contract(f, cls='B', unwind=6, bound='grid<int,2> on std::vector storage, the stated concrete shape(s) of at most 4 cells, cell contents symbolic', backends=['sat', 'cvc5'], timeout=600, what='grid ' + what)
