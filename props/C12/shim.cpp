// C12 shim: the real fcppt::parse::detail::stream<Ch> over a std::basic_istream whose members are stubbed in the harness
#include <fcppt/parse/detail/stream_decl.hpp>
#include <fcppt/parse/detail/stream_impl.hpp>
#include <fcppt/parse/basic_stream_impl.hpp>
#include <fcppt/parse/position.hpp>
#include <fcppt/parse/location.hpp>
#include <fcppt/parse/line.hpp>
#include <fcppt/parse/column.hpp>
#include <fcppt/parse/get_char.hpp>
#include <fcppt/parse/get_position.hpp>
#include <fcppt/parse/set_position.hpp>
#include <fcppt/optional/make.hpp>
#include <fcppt/make_ref.hpp>
#include <istream>
#include <new>
template <typename Ch> using st = fcppt::parse::detail::stream<Ch>;
template <typename Ch> using bs = fcppt::parse::basic_stream<Ch>;
#define DEF(Ch, X) \
extern "C" void vf_init_##X(st<Ch> *mem, std::basic_istream<Ch> *is){ new (mem) st<Ch>{fcppt::make_ref(*is)}; } \
extern "C" long vf_get_char_##X(st<Ch> *s){ auto r = fcppt::parse::get_char(fcppt::make_ref(static_cast<bs<Ch> &>(*s))); return r.has_value() ? static_cast<long>(static_cast<unsigned long>(static_cast<std::make_unsigned_t<Ch>>(r.get_unsafe()))) : -1L; } \
extern "C" void vf_get_position_##X(st<Ch> *s, unsigned long *line, unsigned long *col, long *off){ \
  auto const p = fcppt::parse::get_position(fcppt::make_ref(static_cast<bs<Ch> &>(*s))); \
  *off = static_cast<long>(std::streamoff(p.pos())); auto const &l = p.location().get_unsafe(); *line = l.line().get(); *col = l.column().get(); } \
extern "C" void vf_set_position_##X(st<Ch> *s, long off, unsigned long line, unsigned long col){ \
  fcppt::parse::set_position(fcppt::make_ref(static_cast<bs<Ch> &>(*s)), fcppt::parse::position<Ch>{typename std::basic_istream<Ch>::pos_type{off}, \
    fcppt::optional::make(fcppt::parse::location{fcppt::parse::line{line}, fcppt::parse::column{col}})}); }
DEF(char, c)
DEF(wchar_t, w)
