/* C12 harness: assumed contracts on std::basic_istream / basic_ios (bodiless in the IR) as executable stubs over a ghost
   stream: text = uninterpreted function of the offset (any text, any length), flags eof/fail/bad, read offset.
   Spec functions L(off) (1 + number of newlines before off) and C(off) (1-based column of off) are uninterpreted with
   their defining equations instantiated where needed. */
u32 __CPROVER_uninterpreted_text(u64 off);
u64 __CPROVER_uninterpreted_L(u64 off);
u64 __CPROVER_uninterpreted_C(u64 off);
static u64 g_len, g_off; static _Bool g_eof, g_fail, g_bad; static unsigned g_reads;

#define STUBS(X, IOS, IS, NL) \
  IOS##3badEv_ret_t IOS##3badEv(IOS##3badEv_arg0_t s){ return g_bad; } \
  IOS##3eofEv_ret_t IOS##3eofEv(IOS##3eofEv_arg0_t s){ return g_eof; } \
  IOS##4failEv_ret_t IOS##4failEv(IOS##4failEv_arg0_t s){ return g_fail || g_bad; } \
  void IOSM##X(void);

/* char */
#ifdef VF_HAVE__ZNKSt9basic_iosIcSt11char_traitsIcEE3badEv
_ZNKSt9basic_iosIcSt11char_traitsIcEE3badEv_ret_t _ZNKSt9basic_iosIcSt11char_traitsIcEE3badEv(_ZNKSt9basic_iosIcSt11char_traitsIcEE3badEv_arg0_t s){ return g_bad; }
#endif
#ifdef VF_HAVE__ZNKSt9basic_iosIcSt11char_traitsIcEE3eofEv
_ZNKSt9basic_iosIcSt11char_traitsIcEE3eofEv_ret_t _ZNKSt9basic_iosIcSt11char_traitsIcEE3eofEv(_ZNKSt9basic_iosIcSt11char_traitsIcEE3eofEv_arg0_t s){ return g_eof; }
#endif
#ifdef VF_HAVE__ZNKSt9basic_iosIcSt11char_traitsIcEE4failEv
_ZNKSt9basic_iosIcSt11char_traitsIcEE4failEv_ret_t _ZNKSt9basic_iosIcSt11char_traitsIcEE4failEv(_ZNKSt9basic_iosIcSt11char_traitsIcEE4failEv_arg0_t s){ return g_fail || g_bad; }
#endif
#ifdef VF_HAVE__ZNSt9basic_iosIcSt11char_traitsIcEE5clearESt12_Ios_Iostate
void _ZNSt9basic_iosIcSt11char_traitsIcEE5clearESt12_Ios_Iostate(_ZNSt9basic_iosIcSt11char_traitsIcEE5clearESt12_Ios_Iostate_arg0_t s, u32 st){ g_eof = (st & 2) != 0; g_fail = (st & 4) != 0; g_bad = (st & 1) != 0; }
#endif
#ifdef VF_HAVE__ZNSi3getEv
_ZNSi3getEv_ret_t _ZNSi3getEv(_ZNSi3getEv_arg0_t s){
  ++g_reads;
  if (g_eof || g_fail || g_bad) { g_fail = 1; return (u32)-1; }          /* sentry fails on a non-good stream */
  if (g_off == g_len) { g_eof = 1; g_fail = 1; return (u32)-1; }           /* end of input */
  return __CPROVER_uninterpreted_text(g_off++) & 0xff;
}
#endif
#ifdef VF_HAVE__ZNSi5tellgEv
_ZNSi5tellgEv_ret_t _ZNSi5tellgEv(_ZNSi5tellgEv_arg0_t s){ _ZNSi5tellgEv_ret_t r; r.f1 = 0; r.f0 = (g_fail || g_bad) ? (u64)-1 : g_off; return r; }
#endif
#ifdef VF_HAVE__ZNSi5seekgESt4fposI11__mbstate_tE
_ZNSi5seekgESt4fposI11__mbstate_tE_ret_t _ZNSi5seekgESt4fposI11__mbstate_tE(_ZNSi5seekgESt4fposI11__mbstate_tE_arg0_t s, u64 off, u64 st){
  g_eof = 0;                                                              /* seekg clears eofbit (C++11) */
  if (!(g_fail || g_bad)) { if (off <= g_len) g_off = off; else g_fail = 1; }
  return s;
}
#endif
#ifdef VF_HAVE__ZNSi3getERc
/* istream::get(char&): stores the character if one is available, otherwise leaves it unmodified and sets failbit (and eofbit at end of input) */
#ifdef VF_HAVE__ZNSi3getERc
_ZNSi3getERc_ret_t _ZNSi3getERc(_ZNSi3getERc_arg0_t s, _ZNSi3getERc_arg1_t c){
  ++g_reads;
  if (g_eof || g_fail || g_bad) { g_fail = 1; return s; }
  if (g_off == g_len) { g_eof = 1; g_fail = 1; return s; }
  *c = (u8)(__CPROVER_uninterpreted_text(g_off++) & 0xff); return s;
}
#endif
#endif
#ifdef VF_HAVE__ZNSt13basic_istreamIwSt11char_traitsIwEE3getERw
_ZNSt13basic_istreamIwSt11char_traitsIwEE3getERw_ret_t _ZNSt13basic_istreamIwSt11char_traitsIwEE3getERw(_ZNSt13basic_istreamIwSt11char_traitsIwEE3getERw_arg0_t s, _ZNSt13basic_istreamIwSt11char_traitsIwEE3getERw_arg1_t c){
  ++g_reads;
  if (g_eof || g_fail || g_bad) { g_fail = 1; return s; }
  if (g_off == g_len) { g_eof = 1; g_fail = 1; return s; }
  *c = __CPROVER_uninterpreted_text(g_off++) & 0x7fffffffu; return s;
}
#endif
/* wchar_t */
#ifdef VF_HAVE__ZNKSt9basic_iosIwSt11char_traitsIwEE3badEv
_ZNKSt9basic_iosIwSt11char_traitsIwEE3badEv_ret_t _ZNKSt9basic_iosIwSt11char_traitsIwEE3badEv(_ZNKSt9basic_iosIwSt11char_traitsIwEE3badEv_arg0_t s){ return g_bad; }
#endif
#ifdef VF_HAVE__ZNKSt9basic_iosIwSt11char_traitsIwEE3eofEv
_ZNKSt9basic_iosIwSt11char_traitsIwEE3eofEv_ret_t _ZNKSt9basic_iosIwSt11char_traitsIwEE3eofEv(_ZNKSt9basic_iosIwSt11char_traitsIwEE3eofEv_arg0_t s){ return g_eof; }
#endif
#ifdef VF_HAVE__ZNKSt9basic_iosIwSt11char_traitsIwEE4failEv
_ZNKSt9basic_iosIwSt11char_traitsIwEE4failEv_ret_t _ZNKSt9basic_iosIwSt11char_traitsIwEE4failEv(_ZNKSt9basic_iosIwSt11char_traitsIwEE4failEv_arg0_t s){ return g_fail || g_bad; }
#endif
#ifdef VF_HAVE__ZNSt9basic_iosIwSt11char_traitsIwEE5clearESt12_Ios_Iostate
void _ZNSt9basic_iosIwSt11char_traitsIwEE5clearESt12_Ios_Iostate(_ZNSt9basic_iosIwSt11char_traitsIwEE5clearESt12_Ios_Iostate_arg0_t s, u32 st){ g_eof = (st & 2) != 0; g_fail = (st & 4) != 0; g_bad = (st & 1) != 0; }
#endif
#ifdef VF_HAVE__ZNSt13basic_istreamIwSt11char_traitsIwEE3getEv
_ZNSt13basic_istreamIwSt11char_traitsIwEE3getEv_ret_t _ZNSt13basic_istreamIwSt11char_traitsIwEE3getEv(_ZNSt13basic_istreamIwSt11char_traitsIwEE3getEv_arg0_t s){
  ++g_reads;
  if (g_eof || g_fail || g_bad) { g_fail = 1; return (u32)-1; }
  if (g_off == g_len) { g_eof = 1; g_fail = 1; return (u32)-1; }
  return __CPROVER_uninterpreted_text(g_off++) & 0x7fffffffu;            /* a wchar_t code unit other than WEOF */
}
#endif
#ifdef VF_HAVE__ZNSt13basic_istreamIwSt11char_traitsIwEE5tellgEv
_ZNSt13basic_istreamIwSt11char_traitsIwEE5tellgEv_ret_t _ZNSt13basic_istreamIwSt11char_traitsIwEE5tellgEv(_ZNSt13basic_istreamIwSt11char_traitsIwEE5tellgEv_arg0_t s){ _ZNSt13basic_istreamIwSt11char_traitsIwEE5tellgEv_ret_t r; r.f1 = 0; r.f0 = (g_fail || g_bad) ? (u64)-1 : g_off; return r; }
#endif
#ifdef VF_HAVE__ZNSt13basic_istreamIwSt11char_traitsIwEE5seekgESt4fposI11__mbstate_tE
_ZNSt13basic_istreamIwSt11char_traitsIwEE5seekgESt4fposI11__mbstate_tE_ret_t _ZNSt13basic_istreamIwSt11char_traitsIwEE5seekgESt4fposI11__mbstate_tE(_ZNSt13basic_istreamIwSt11char_traitsIwEE5seekgESt4fposI11__mbstate_tE_arg0_t s, u64 off, u64 st){
  g_eof = 0;
  if (!(g_fail || g_bad)) { if (off <= g_len) g_off = off; else g_fail = 1; }
  return s;
}
#endif

/* defining equations of the spec functions, instantiated at o */
static void ax(u64 o, u32 mask){
  __CPROVER_assume(__CPROVER_uninterpreted_L(0) == 1 && __CPROVER_uninterpreted_C(0) == 1);
  u32 c = __CPROVER_uninterpreted_text(o) & mask;
  __CPROVER_assume(__CPROVER_uninterpreted_L(o + 1) == __CPROVER_uninterpreted_L(o) + (c == '\n'));
  __CPROVER_assume(__CPROVER_uninterpreted_C(o + 1) == (c == '\n' ? 1 : __CPROVER_uninterpreted_C(o) + 1));
}
#define LL(o) __CPROVER_uninterpreted_L(o)
#define CC(o) __CPROVER_uninterpreted_C(o)

/* the istream object: raw storage with a fake vtable that supplies the virtual-base offset (vptr[-3] = offset of basic_ios) */
#define OBJECTS \
  u64 isbuf[64]; u64 vt[4]; vt[0] = 16; vt[1] = 0; vt[2] = 0; vt[3] = 0; isbuf[0] = (u64)&vt[3]; \
  u64 stbuf[8];
/* stream object layout: [vptr][reference to istream][line][column] */
#define LINE stbuf[2]
#define COL stbuf[3]

#define LEMMAS(X, MASK) \
void h_ctor_##X(void){ OBJECTS \
  u64 len; g_len = len; g_off = 0; g_eof = g_fail = g_bad = 0; \
  vf_init_##X((void *)stbuf, (void *)isbuf); ax(0, MASK); \
  __CPROVER_assert(LINE == LL(0) && COL == CC(0) && LINE == 1 && COL == 1, "constructor establishes the invariant: location == (L(0), C(0)) == (1, 1)"); \
  u64 line, col, off; vf_get_position_##X((void *)stbuf, &line, &col, &off); \
  __CPROVER_assert(off == 0 && line == 1 && col == 1, "a fresh stream reports offset 0, line 1, column 1 (and the harness' field offsets are the real ones)"); \
  VF_PROBE(); } \
void h_get_char_##X(void){ OBJECTS \
  u64 len, off; _Bool e, f; g_len = len; g_off = 0; g_eof = g_fail = g_bad = 0; g_reads = 0; \
  vf_init_##X((void *)stbuf, (void *)isbuf); \
  __CPROVER_assume(off <= len && len < (1ul << 40)); \
  e = e != 0; f = f != 0; __CPROVER_assume(!e || f);                       /* eofbit from a read implies failbit */ \
  g_off = off; g_eof = e; g_fail = f; LINE = LL(off); COL = CC(off); ax(off, MASK); /* arbitrary state satisfying the invariant */ \
  u64 r = vf_get_char_##X((void *)stbuf); \
  __CPROVER_assert(g_reads == 1, "exactly one read of the underlying stream per get_char"); \
  if (!e && !f && off < len) { \
    __CPROVER_assert(r == (u64)(__CPROVER_uninterpreted_text(off) & MASK), "get_char returns the next unread character"); \
    __CPROVER_assert(g_off == off + 1, "offset advanced by one"); \
    __CPROVER_assert(LINE == LL(off + 1) && COL == CC(off + 1), "line/column invariant preserved: location == (L(off+1), C(off+1))"); \
  } else { \
    __CPROVER_assert(r == (u64)-1, "end of input or a failing stream yields a failure, never a character"); \
    __CPROVER_assert(g_off == off && LINE == LL(off) && COL == CC(off), "offset and location unchanged when nothing was read"); \
  } \
  VF_PROBE(); } \
void h_get_position_##X(void){ OBJECTS \
  u64 len, off; _Bool e; g_len = len; g_off = 0; g_eof = g_fail = g_bad = 0; \
  vf_init_##X((void *)stbuf, (void *)isbuf); \
  __CPROVER_assume(off <= len && len < (1ul << 40)); e = e != 0; \
  g_off = off; g_eof = e; g_fail = e; LINE = LL(off); COL = CC(off); \
  u64 line, col, o; vf_get_position_##X((void *)stbuf, &line, &col, &o); \
  __CPROVER_assert(o == off, "position denotes the offset of the next unread character"); \
  __CPROVER_assert(line == LL(off) && col == CC(off), "position carries line = L(offset), column = C(offset)"); \
  __CPROVER_assert(!g_eof && !g_fail && g_off == off && LINE == LL(off) && COL == CC(off), "get_position clears a pending end-of-file and changes nothing else"); \
  VF_PROBE(); } \
void h_set_position_##X(void){ OBJECTS \
  u64 len, off, saved; _Bool e; g_len = len; g_off = 0; g_eof = g_fail = g_bad = 0; \
  vf_init_##X((void *)stbuf, (void *)isbuf); \
  __CPROVER_assume(off <= len && saved <= len && len < (1ul << 40)); e = e != 0; \
  g_off = off; g_eof = e; g_fail = e; LINE = LL(off); COL = CC(off); \
  vf_set_position_##X((void *)stbuf, saved, LL(saved), CC(saved));         /* a position obtained earlier carries the invariant */ \
  __CPROVER_assert(g_off == saved && LINE == LL(saved) && COL == CC(saved) && !g_eof && !g_fail, "restoring a saved position restores exactly its offset and location (and a good stream)"); \
  u64 line, col, o; vf_get_position_##X((void *)stbuf, &line, &col, &o); \
  __CPROVER_assert(o == saved && line == LL(saved) && col == CC(saved), "get_position after set_position(p) returns p"); \
  VF_PROBE(); } \
void h_bad_##X(void){ OBJECTS \
  u64 len; g_len = len; g_off = 0; g_eof = g_fail = 0; g_bad = 0; g_reads = 0; \
  vf_init_##X((void *)stbuf, (void *)isbuf); g_bad = 1; \
  u64 r = vf_get_char_##X((void *)stbuf); \
  __CPROVER_assert(0, "unreachable: a bad stream makes get_char throw the documented exception before anything is read"); }

LEMMAS(c, 0xffu)
LEMMAS(w, 0x7fffffffu)
