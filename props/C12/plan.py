"""C12 - parse stream reports true line/column and rewinds exactly."""
from vf.plan import Plan

ISTREAM = 'assumed contract (executable stub over a ghost stream, harness.c): std::basic_istream<Ch>::get / tellg / seekg, std::basic_ios<Ch>::bad / eof / fail / clear - these exist only as machine code in libstdc++.so'


def make(tier):
    P = Plan('C12', level='proof', design_ref='DESIGN.md section 5 C12')
    P.assumptions.append(ISTREAM)
    P.meta += ['invariant inv: location == (L(off), C(off)) with L/C the line/column spec functions over the (arbitrary, unbounded) text. The constructor establishes inv, get_char preserves it, every position handed out carries it, set_position(p) restores exactly (off, location) of p: by induction over the interleaving of reads and restores every reported position is the true line/column, and after a restore the state equals the state at save time, so all subsequent reads and positions repeat (the text is immutable)']
    P.not_decided += ['text of error messages (location_output, detail/expected: iostream formatting); the location value is covered', 'behaviour of the real std::basic_istream (assumed contract)']
    u = P.unit('s', 'shim.cpp', harness=['harness.c'], inline=False, sroa=False)
    for X, ch in (('c', 'char'), ('w', 'wchar_t')):
        for h, what in (('h_ctor', 'constructor establishes the line/column invariant'),
                        ('h_get_char', 'get_char from ANY invariant state (any text, offset, eof/fail flags): next character + invariant preserved, or nothing and state unchanged at end of input / on a failing stream'),
                        ('h_get_position', 'get_position returns (offset, L(offset), C(offset)) and clears a pending eof'),
                        ('h_set_position', 'set_position(p) restores exactly p; get_position then returns p')):
            u.lemma('%s_%s' % (h, X), cls='P', backends=['sat', 'cvc5'], native=False, assumed=[ISTREAM], what='stream<%s>: %s' % (ch, what), timeout=600)
        u.lemma('h_bad_%s' % X, cls='P', backends=['sat'], native=False, assumed=[ISTREAM], noprobe=True,
                expected=['exception or termination: __cxa_throw'],
                what='stream<%s>: a bad() stream makes get_char throw the documented exception; no character is produced' % ch)
    return P
