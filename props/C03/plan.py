"""C03 (exploration) - leaf primitives of the options parser on a real args_vector."""
from vf.plan import Plan


def make(tier):
    P = Plan('C03', level='model_checking', design_ref='DESIGN.md section 5 C03')
    ST = 'n <= 2 && l0 <= 3 && l1 <= 3'
    M = lambda l, c: '(is_short != 0 ? (%s == 2 && %s0 == 45 && %s1 == nm) : (%s == 3 && %s0 == 45 && %s1 == 45 && %s2 == nm))' % (l, c, c, l, c, c, c)
    m0 = '(n > 0 && %s)' % M('l0', 'a'); m1 = '(n > 1 && %s)' % M('l1', 'b')
    same = lambda k, l, c: '(o->len[%d] == %s && VF_IMP(%s > 0, o->ch[%d][0] == %s0) && VF_IMP(%s > 1, o->ch[%d][1] == %s1) && VF_IMP(%s > 2, o->ch[%d][2] == %s2))' % (k, l, l, k, c, l, k, c, l, k, c)
    ens = ('o->ret == ((%s || %s) ? 1 : 0) && o->n == n - o->ret' % (m0, m1) +
           ' && VF_IMP(%s, VF_IMP(n > 1, %s))' % (m0, same(0, 'l1', 'b')) +
           ' && VF_IMP(!%s && %s, %s)' % (m0, m1, same(0, 'l0', 'a')) +
           ' && VF_IMP(!%s && !%s, VF_IMP(n > 0, %s) && VF_IMP(n > 1, %s))' % (m0, m1, same(0, 'l0', 'a'), same(1, 'l1', 'b')))
    spec = 'function vf_use_flag\n  __CPROVER_requires(__CPROVER_is_fresh(o, sizeof(*o)))\n  __CPROVER_requires(%s)\n  __CPROVER_assigns(__CPROVER_object_whole(o))\n  __CPROVER_ensures(%s)\n' % (ST, ens)
    import re
    spec = re.sub(r'o->n\b', 'o->f0', spec); spec = re.sub(r'o->ret\b', 'o->f1', spec); spec = re.sub(r'o->len\[(\d)\]', r'o->f2.a[\1]', spec); spec = re.sub(r'o->ch\[(\d)\]\[(\d)\]', r'o->f3.a[\1].a[\2]', spec)
    P.generated['c03.spec'] = spec
    u = P.unit('leaf', 'shim.cpp', specs=['c03.spec'], inline=True, maxb=4, srcs=['libs/options/src/options/detail/use_flag.cpp', 'libs/options/src/options/state.cpp', 'libs/options/impl/src/options/impl/flag_name.cpp'])
    u.contract('vf_use_flag', cls='B', unwind=6, dfcc=False, backends=['sat'], timeout=1200, mem=24, native=False, cbmc=['--slice-formula'], bound='at most 2 arguments of at most 3 characters',
               what='use_flag removes exactly the first argument equal to the flag name and reports whether there was one')
    return P
