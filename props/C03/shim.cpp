// C03 shim (leaf functions of the options parser only): the argument-vector primitives that every leaf parser is built on,
// run on a real fcppt::args_vector (std::vector<std::string>) of at most 2 arguments with at most 3 symbolic characters each.
#include <fcppt/args_vector.hpp>
#include <fcppt/make_ref.hpp>
#include <fcppt/string.hpp>
#include <fcppt/string_view.hpp>
#include <fcppt/optional/object.hpp>
#include <fcppt/options/state.hpp>
#include <fcppt/options/detail/flag_is_short.hpp>
#include <fcppt/options/detail/use_flag.hpp>
#include <utility>
struct outa { unsigned n, ret; unsigned len[3]; char ch[3][4]; };
static fcppt::string mk(unsigned len, char c0, char c1, char c2){ fcppt::string s; if (len > 0) s.push_back(c0); if (len > 1) s.push_back(c1); if (len > 2) s.push_back(c2); return s; }
static void put(fcppt::args_vector const &v, outa *o){ o->n = static_cast<unsigned>(v.size()); for (unsigned i = 0; i < 3 && i < v.size(); ++i) { o->len[i] = static_cast<unsigned>(v[i].size()); for (unsigned j = 0; j < 3 && j < v[i].size(); ++j) o->ch[i][j] = v[i][j]; } }
#define ARGS unsigned n, unsigned l0, char a0, char a1, char a2, unsigned l1, char b0, char b1, char b2
#define MKV fcppt::args_vector v; if (n > 0) v.push_back(mk(l0, a0, a1, a2)); if (n > 1) v.push_back(mk(l1, b0, b1, b2)); fcppt::options::state st{std::move(v)}
extern "C" {
void vf_use_flag(ARGS, char nm, int is_short, outa *o){ MKV; char const name[1] = {nm};
  o->ret = fcppt::options::detail::use_flag(fcppt::make_ref(st), fcppt::string_view{name, 1}, fcppt::options::detail::flag_is_short{is_short != 0}) ? 1U : 0U; put(st.args(), o); }
}
