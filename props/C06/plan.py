"""C06 - checked conversions and integer helpers equal their mathematical definition."""
from vf.plan import Plan

INTS = [('i8', 'std::int8_t', True, 8), ('u8', 'std::uint8_t', False, 8), ('i16', 'std::int16_t', True, 16), ('u16', 'std::uint16_t', False, 16),
        ('i32', 'std::int32_t', True, 32), ('u32', 'std::uint32_t', False, 32), ('i64', 'std::int64_t', True, 64), ('u64', 'std::uint64_t', False, 64)]


def mn(s, w):
    return -(1 << (w - 1)) if s else 0


def mx(s, w):
    return (1 << (w - 1)) - 1 if s else (1 << w) - 1


def lit(v):
    """integer literal as an i128 C expression"""
    if v < 0:
        return '(-(i128)%dULL)' % (-v)
    return '((i128)%dULL)' % v


def wide(n, s, expr):
    """value of a generated-C unsigned carrier `expr` of C++ type n, as i128"""
    return '((i128)(%s)%s)' % (n, expr) if s else '((i128)%s)' % expr


HDR = '''#include <cstdint>
#include <fcppt/optional/object.hpp>
#define VF_OPT(r, out) do { if ((r).has_value()) { *(out) = (r).get_unsafe(); return true; } return false; } while (0)
'''


def make(tier):
    P = Plan('C06', level='proof', design_ref='DESIGN.md section 5 C06')
    # ---------------------------------------------------------------- truncation_check
    shim = HDR + '#include <fcppt/cast/truncation_check.hpp>\n'
    spec = ''
    tc_jobs = []
    for (sn, st, ss, sw) in INTS:
        for (dn, dt, ds, dw) in INTS:
            f = 'vf_tc_%s_%s' % (sn, dn)
            shim += 'extern "C" bool %s(%s s, %s *out){ auto r = fcppt::cast::truncation_check<%s>(s); VF_OPT(r, out); }\n' % (f, st, dt, dt)
            S = wide(sn, ss, 's')
            spec += 'function %s\n' % f
            spec += '  __CPROVER_requires(__CPROVER_is_fresh(out, sizeof(*out)))\n  __CPROVER_assigns(*out)\n'
            spec += '  __CPROVER_ensures(__CPROVER_return_value == (%s >= %s && %s <= %s))\n' % (S, lit(mn(ds, dw)), S, lit(mx(ds, dw)))
            spec += '  __CPROVER_ensures(VF_IMP(__CPROVER_return_value, %s == %s))\n' % (wide(dn, ds, '*out'), S)
            tc_jobs.append(f)
    P.generated['tc.cpp'] = shim
    P.generated['tc.spec'] = spec
    u = P.unit('tc', 'tc.cpp', specs=['tc.spec'], inline=True)
    for f in tc_jobs:
        u.contract(f, cls='P', backends=['sat', 'cvc5'], timeout=300,
                   what='truncation_check<D>(s) has a value exactly when s is representable in D, and then the value is s')
    make_math(P, tier)
    make_enum(P, tier)
    return P


UNS = [t for t in INTS if not t[2]]
SIG = [t for t in INTS if t[2]]
CTY = {'i8': 'signed char', 'u8': 'unsigned char', 'i16': 'short', 'u16': 'unsigned short', 'i32': 'int', 'u32': 'unsigned int', 'i64': 'long', 'u64': 'unsigned long'}


def pow2_disj(x, w):
    return '(' + ' || '.join('%s == ((u64)1 << %d)' % (x, k) for k in range(w)) + ')'


def make_math(P, tier):
    shim = HDR + '''#include <fcppt/math/log2.hpp>
#include <fcppt/math/next_power_of_2.hpp>
#include <fcppt/math/is_power_of_2.hpp>
#include <fcppt/math/power_of_2.hpp>
#include <fcppt/math/ceil_div.hpp>
#include <fcppt/math/ceil_div_signed.hpp>
#include <fcppt/math/div.hpp>
#include <fcppt/math/mod.hpp>
#include <fcppt/math/clamp.hpp>
#include <fcppt/math/diff.hpp>
#include <fcppt/bit/shifted_mask.hpp>
#include <fcppt/bit/shift_count.hpp>
#include <fcppt/bit/test.hpp>
#include <fcppt/bit/mask.hpp>
'''
    spec = ''
    jobs = []   # (fn key, kwargs)
    for (n, t, s, w) in UNS:
        c = CTY[n]
        # instantiate the real scalar templates (contracts attach to the real functions by demangled name)
        shim += 'extern "C" bool vf_ip2_%s(%s x){ return fcppt::math::is_power_of_2(x); }\n' % (n, t)
        shim += 'extern "C" %s vf_np2_%s(%s x){ return fcppt::math::next_power_of_2(x); }\n' % (t, n, t)
        shim += 'extern "C" %s vf_log2_%s(%s x){ return fcppt::math::log2(x); }\n' % (t, n, t)
        f = 'bool fcppt::math::is_power_of_2<%s>(%s)' % (c, c)
        spec += 'function %s\n  __CPROVER_assigns()\n  __CPROVER_ensures(__CPROVER_return_value == %s)\n' % (f, pow2_disj('x', w))
        jobs.append((f, dict(cls='P', what='is_power_of_2(x) holds exactly when x = 2^k for some k < width')))
        f = '%s fcppt::math::next_power_of_2<%s>(%s)' % (c, c, c)
        spec += 'function %s\n  __CPROVER_requires((u64)_value <= ((u64)1 << %d))\n  __CPROVER_assigns()\n' % (f, w - 1)
        spec += '  __CPROVER_ensures(%s)\n' % pow2_disj('__CPROVER_return_value', w)
        spec += '  __CPROVER_ensures(__CPROVER_return_value >= _value)\n'
        spec += '  __CPROVER_ensures(_value == 0 ? __CPROVER_return_value == 1 : (__CPROVER_return_value >> 1) < _value)\n'
        if n == 'u32':
            spec += '''  loop 0
    __CPROVER_loop_invariant(ret >= 1 && (ret & (ret-1))==0 && counter >= 1 && ret <= _value_addr && (u64)counter*ret <= _value_addr && (u64)(counter+1)*ret > _value_addr && _value_addr == _value && (_value & (_value-1)) != 0)
    __CPROVER_decreases(counter)
'''
            jobs.append((f, dict(cls='P', loops=True, replace=['bool fcppt::math::is_power_of_2<unsigned int>(unsigned int)'], timeout=600,
                                 what='next_power_of_2(x): a power of two, >= x, and half of it < x (1 for 0); loop closed by invariant + decreases')))
        else:
            jobs.append((f, dict(cls='W', unwind=w + 2, bound='loop bounded by operand width (%d iterations), unwinding assertion on' % w, timeout=900,
                                 what='next_power_of_2(x): a power of two, >= x, and half of it < x (1 for 0)')))
        f = '%s fcppt::math::log2<%s>(%s)' % (c, c, c)
        spec += 'function %s\n  __CPROVER_requires(x != 0)\n  __CPROVER_assigns()\n' % (f,)
        spec += '  __CPROVER_ensures(__CPROVER_return_value < %d && (((u64)x >> __CPROVER_return_value) == 1))\n' % w
        jobs.append((f, dict(cls='W', unwind=w + 2, bound='loop bounded by operand width (%d iterations), unwinding assertion on' % w, timeout=900,
                             what='log2(x) = floor(log2 x): x >> r == 1, for every x != 0 (documented precondition)')))
    # power_of_2<R,E>
    for (rn, rt, rs, rw) in [INTS[1], INTS[5], INTS[7], INTS[4]]:
        f = 'vf_pow2_%s' % rn
        shim += 'extern "C" %s %s(unsigned e){ return fcppt::math::power_of_2<%s>(e); }\n' % (rt, f, rt)
        lim = rw - 1 if rs else rw
        spec += 'function %s\n  __CPROVER_requires(e < %d)\n  __CPROVER_assigns()\n  __CPROVER_ensures((u64)__CPROVER_return_value == ((u64)1 << e))\n' % (f, lim)
        jobs.append((f, dict(cls='P', what='power_of_2<R>(e) == 2^e whenever 2^e is representable in R')))
    # shifted_mask / test
    shim += 'extern "C" std::uint32_t vf_shifted_mask_u32(unsigned b){ return fcppt::bit::shifted_mask<std::uint32_t>(fcppt::bit::shift_count{b}).get(); }\n'
    spec += 'function vf_shifted_mask_u32\n  __CPROVER_requires(b < 32)\n  __CPROVER_assigns()\n  __CPROVER_ensures(__CPROVER_return_value == ((u32)1 << b))\n'
    jobs.append(('vf_shifted_mask_u32', dict(cls='P', what='shifted_mask(b) has exactly bit b set')))
    shim += 'extern "C" bool vf_bit_test_u32(std::uint32_t v, std::uint32_t m){ return fcppt::bit::test(v, fcppt::bit::mask<std::uint32_t>{m}); }\n'
    spec += 'function vf_bit_test_u32\n  __CPROVER_assigns()\n  __CPROVER_ensures(__CPROVER_return_value == ((v & m) != 0))\n'
    jobs.append(('vf_bit_test_u32', dict(cls='P', what='bit::test(v, mask) holds exactly when v and mask share a set bit')))
    for (bn, bt, bw) in (('u8', 'std::uint8_t', 8), ('u16', 'std::uint16_t', 16), ('u64', 'std::uint64_t', 64)):
        shim += 'extern "C" %s vf_shifted_mask_%s(unsigned b){ return fcppt::bit::shifted_mask<%s>(fcppt::bit::shift_count{b}).get(); }\n' % (bt, bn, bt)
        spec += 'function vf_shifted_mask_%s\n  __CPROVER_requires(b < %d)\n  __CPROVER_assigns()\n  __CPROVER_ensures((u64)__CPROVER_return_value == ((u64)1 << b))\n' % (bn, bw)
        jobs.append(('vf_shifted_mask_%s' % bn, dict(cls='P', what='shifted_mask<%s>(b) has exactly bit b set, for every b below the width' % bn)))
        shim += 'extern "C" bool vf_bit_test_%s(%s v, %s m){ return fcppt::bit::test(v, fcppt::bit::mask<%s>{m}); }\n' % (bn, bt, bt, bt)
        spec += 'function vf_bit_test_%s\n  __CPROVER_assigns()\n  __CPROVER_ensures(__CPROVER_return_value == (((u64)v & (u64)m) != 0))\n' % bn
        jobs.append(('vf_bit_test_%s' % bn, dict(cls='P', what='bit::test<%s>(v, mask) holds exactly when v and mask share a set bit' % bn)))
    # ceil_div / div / mod (unsigned, 32 and 64 bit: narrower types are rejected at compile time)
    for (n, t, s, w) in [INTS[5], INTS[7]]:
        for (fn, call, post) in [('ceil_div', 'fcppt::math::ceil_div(a, b)', '*out == a / b + (a % b != 0 ? 1 : 0)'),
                                 ('div', 'fcppt::math::div(a, b)', '*out == a / b'),
                                 ('mod', 'fcppt::math::mod(a, b)', '*out == a % b')]:
            f = 'vf_%s_%s' % (fn, n)
            shim += 'extern "C" bool %s(%s a, %s b, %s *out){ auto r = %s; VF_OPT(r, out); }\n' % (f, t, t, t, call)
            spec += 'function %s\n  __CPROVER_requires(__CPROVER_is_fresh(out, sizeof(*out)))\n  __CPROVER_assigns(*out)\n' % f
            spec += '  __CPROVER_ensures(__CPROVER_return_value == (b != 0))\n  __CPROVER_ensures(VF_IMP(__CPROVER_return_value, %s))\n' % post
            jobs.append((f, dict(cls='P', backends=['cvc5', 'z3', 'sat'], stagger=3, timeout=600,
                                 what='%s: empty exactly for a zero divisor, otherwise the exact quotient/remainder' % fn)))
    # signed division helpers
    for (n, t, s, w) in [INTS[4], INTS[6]]:
        MIN = '((%s)1 << %d)' % ('u%d' % w, w - 1)
        f = 'vf_div_%s' % n
        shim += 'extern "C" bool %s(%s a, %s b, %s *out){ auto r = fcppt::math::div(a, b); VF_OPT(r, out); }\n' % (f, t, t, t)
        spec += 'function %s\n  __CPROVER_requires(__CPROVER_is_fresh(out, sizeof(*out)))\n  __CPROVER_requires(!(a == %s && (%s)b == -1))\n  __CPROVER_assigns(*out)\n' % (f, MIN, n)
        spec += '  __CPROVER_ensures(__CPROVER_return_value == (b != 0))\n  __CPROVER_ensures(VF_IMP(__CPROVER_return_value, (%s)*out == (%s)a / (%s)b))\n' % (n, n, n)
        jobs.append((f, dict(cls='P', backends=['cvc5', 'z3', 'sat'], stagger=3, timeout=600, what='div (signed): empty exactly for a zero divisor, otherwise a / b (quotient representable)')))
        f = 'vf_ceil_div_signed_%s' % n
        shim += 'extern "C" bool %s(%s a, %s b, %s *out){ auto r = fcppt::math::ceil_div_signed(a, b); VF_OPT(r, out); }\n' % (f, t, t, t)
        spec += 'function %s\n  __CPROVER_requires(__CPROVER_is_fresh(out, sizeof(*out)))\n  __CPROVER_requires(!(a == %s && (%s)b == -1))\n  __CPROVER_assigns(*out)\n' % (f, MIN, n)
        spec += '  __CPROVER_ensures(__CPROVER_return_value == (b != 0))\n'
        # ceil(a/b) from the truncating quotient and remainder: one more exactly when the remainder is non-zero and has the sign of the divisor
        spec += '  __CPROVER_ensures(VF_IMP(__CPROVER_return_value, (%s)*out == (%s)a / (%s)b + (((%s)a %% (%s)b != 0 && (((%s)a %% (%s)b < 0) == ((%s)b < 0))) ? 1 : 0)))\n' % ((n,) * 8)
        jobs.append((f, dict(cls='P', backends=['cvc5', 'z3', 'sat'], stagger=3, timeout=600,
                             what='ceil_div_signed(a, b): empty exactly for b == 0, otherwise a / b rounded towards +infinity (quotient representable)')))
    # clamp / diff for all eight types
    for (n, t, s, w) in INTS:
        f = 'vf_clamp_%s' % n
        shim += 'extern "C" bool %s(%s x, %s lo, %s hi, %s *out){ auto r = fcppt::math::clamp(x, lo, hi); VF_OPT(r, out); }\n' % (f, t, t, t, t)
        X, LO, HI, O = wide(n, s, 'x'), wide(n, s, 'lo'), wide(n, s, 'hi'), wide(n, s, '*out')
        spec += 'function %s\n  __CPROVER_requires(__CPROVER_is_fresh(out, sizeof(*out)))\n  __CPROVER_assigns(*out)\n' % f
        spec += '  __CPROVER_ensures(__CPROVER_return_value == (%s <= %s))\n' % (LO, HI)
        spec += '  __CPROVER_ensures(VF_IMP(__CPROVER_return_value, %s == (%s < %s ? %s : (%s > %s ? %s : %s))))\n' % (O, X, LO, LO, X, HI, HI, X)
        jobs.append((f, dict(cls='P', what='clamp: empty exactly for an empty interval (lo > hi), otherwise max(lo, min(x, hi))')))
        f = 'vf_diff_%s' % n
        shim += 'extern "C" %s %s(%s a, %s b){ return fcppt::math::diff(a, b); }\n' % (t, f, t, t)
        A, B = wide(n, s, 'a'), wide(n, s, 'b')
        D = '(%s < %s ? %s - %s : %s - %s)' % (A, B, B, A, A, B)
        spec += 'function %s\n  __CPROVER_requires(%s <= %s)\n  __CPROVER_assigns()\n' % (f, D, lit(mx(s, w)))
        spec += '  __CPROVER_ensures(%s == %s)\n' % (wide(n, s, '__CPROVER_return_value'), D)
        jobs.append((f, dict(cls='P', what='diff(a, b) == |a - b| whenever |a - b| is representable')))
    P.generated['math.cpp'] = shim
    P.generated['math.spec'] = spec
    u = P.unit('math', 'math.cpp', specs=['math.spec'], sroa=False)
    for f, kw in jobs:
        kw.setdefault('backends', ['sat', 'cvc5', 'z3'])
        u.contract(f, **kw)


def make_enum(P, tier):
    shim = HDR + '''#include <fcppt/enum/from_int.hpp>
enum class e3_u8 : unsigned char { a, b, c, fcppt_maximum = c };
enum class e1_u8 : unsigned char { a, fcppt_maximum = a };
enum class e3_int { a, b, c, fcppt_maximum = c };
enum class e300_u16 : unsigned short { first = 0, last = 299, fcppt_maximum = last };
enum class e200_u8 : unsigned char { first = 0, last = 199, fcppt_maximum = last };
'''
    spec = ''
    u_jobs = []
    for (en, ut, size) in [('e3_u8', 'unsigned char', 3), ('e1_u8', 'unsigned char', 1), ('e3_int', 'int', 3), ('e300_u16', 'unsigned short', 300), ('e200_u8', 'unsigned char', 200)]:
        for (n, t, s, w) in UNS:
            f = 'vf_from_int_%s_%s' % (en, n)
            shim += 'extern "C" bool %s(%s v, unsigned long *out){ auto r = fcppt::enum_::from_int<%s>(v); if (r.has_value()) { *out = static_cast<unsigned long>(static_cast<%s>(r.get_unsafe())); return true; } return false; }\n' % (f, t, en, ut)
            spec += 'function %s\n  __CPROVER_requires(__CPROVER_is_fresh(out, sizeof(*out)))\n  __CPROVER_assigns(*out)\n' % f
            spec += '  __CPROVER_ensures(__CPROVER_return_value == ((u64)v < %d))\n  __CPROVER_ensures(VF_IMP(__CPROVER_return_value, *out == (u64)v))\n' % size
            u_jobs.append(f)
    P.generated['enum.cpp'] = shim
    P.generated['enum.spec'] = spec
    u = P.unit('enum', 'enum.cpp', specs=['enum.spec'], inline=True)
    for f in u_jobs:
        u.contract(f, cls='P', backends=['sat', 'cvc5'], what='from_int<E>(v) yields the enumerator with value v exactly when v < size(E)')
