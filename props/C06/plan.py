"""C06 - checked conversions and integer helpers equal their mathematical definition."""
from vf.plan import Plan

INTS = [('i8', 'std::int8_t', True, 8), ('u8', 'std::uint8_t', False, 8), ('i16', 'std::int16_t', True, 16), ('u16', 'std::uint16_t', False, 16),
        ('i32', 'std::int32_t', True, 32), ('u32', 'std::uint32_t', False, 32), ('i64', 'std::int64_t', True, 64), ('u64', 'std::uint64_t', False, 64)]


def mn(s, w):
    return -(1 << (w - 1)) if s else 0


def mx(s, w):
    return (1 << (w - 1)) - 1 if s else (1 << w) - 1


def lit(v):
    """integer literal as an i128 C expression"""
    if v < 0:
        return '(-(i128)%dULL)' % (-v)
    return '((i128)%dULL)' % v


def wide(n, s, expr):
    """value of a generated-C unsigned carrier `expr` of C++ type n, as i128"""
    return '((i128)(%s)%s)' % (n, expr) if s else '((i128)%s)' % expr


HDR = '''#include <cstdint>
#include <fcppt/optional/object.hpp>
#define VF_OPT(r, out) do { if ((r).has_value()) { *(out) = (r).get_unsafe(); return true; } return false; } while (0)
'''


def make(tier):
    P = Plan('C06', level='proof', design_ref='DESIGN.md section 5 C06')
    # ---------------------------------------------------------------- truncation_check
    shim = HDR + '#include <fcppt/cast/truncation_check.hpp>\n'
    spec = ''
    tc_jobs = []
    for (sn, st, ss, sw) in INTS:
        for (dn, dt, ds, dw) in INTS:
            f = 'vf_tc_%s_%s' % (sn, dn)
            shim += 'extern "C" bool %s(%s s, %s *out){ auto r = fcppt::cast::truncation_check<%s>(s); VF_OPT(r, out); }\n' % (f, st, dt, dt)
            S = wide(sn, ss, 's')
            spec += 'function %s\n' % f
            spec += '  __CPROVER_requires(__CPROVER_is_fresh(out, sizeof(*out)))\n  __CPROVER_assigns(*out)\n'
            spec += '  __CPROVER_ensures(__CPROVER_return_value == (%s >= %s && %s <= %s))\n' % (S, lit(mn(ds, dw)), S, lit(mx(ds, dw)))
            spec += '  __CPROVER_ensures(VF_IMP(__CPROVER_return_value, %s == %s))\n' % (wide(dn, ds, '*out'), S)
            tc_jobs.append(f)
    P.generated['tc.cpp'] = shim
    P.generated['tc.spec'] = spec
    u = P.unit('tc', 'tc.cpp', specs=['tc.spec'], sroa=True)
    for f in tc_jobs:
        u.contract(f, cls='P', backends=['sat', 'cvc5'], timeout=300,
                   what='truncation_check<D>(s) has a value exactly when s is representable in D, and then the value is s')
    return P
