u32 vf_f2(u32 e, u32 s){ if (c_f2 < 8) l_f2e[c_f2] = e; ++c_f2; return __CPROVER_uninterpreted_af2(e, s); }
_Bool vf_pred(u32 e){ if (c_pred < 8) l_pred[c_pred] = e; ++c_pred; return __CPROVER_uninterpreted_apred(e) & 1; }
u32 vf_map(u32 e){ if (c_map < 8) l_map[c_map] = e; ++c_map; return __CPROVER_uninterpreted_amap(e); }
void vf_visit(u32 e){ if (c_vis < 8) l_vis[c_vis] = e; ++c_vis; }
void vf_tick(void){ ++c_tick; }
