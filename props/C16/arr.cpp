// C16 shim (fixed arity): array / tuple helpers, loop-free after template expansion
#include <fcppt/array/object.hpp>
#include <fcppt/array/map.hpp>
#include <fcppt/array/join.hpp>
#include <fcppt/array/append.hpp>
#include <fcppt/array/push_back.hpp>
#include <fcppt/array/init.hpp>
#include <fcppt/array/get.hpp>
#include <fcppt/tuple/object.hpp>
#include <fcppt/tuple/map.hpp>
#include <fcppt/tuple/concat.hpp>
#include <fcppt/tuple/push_back.hpp>
#include <fcppt/tuple/get.hpp>
#include <cstddef>
#include <type_traits>
extern "C" { unsigned vf_map(unsigned); unsigned vf_init(unsigned idx); }
using a2 = fcppt::array::object<unsigned, 2>; using a3 = fcppt::array::object<unsigned, 3>; using a5 = fcppt::array::object<unsigned, 5>;
template <typename A, std::size_t... I> static void puta(A const &a, unsigned *o, std::index_sequence<I...>){ ((o[I] = fcppt::array::get<I>(a)), ...); }
extern "C" {
void vf_array_map(unsigned x0, unsigned x1, unsigned x2, unsigned *o){ auto const r = fcppt::array::map(a3{x0, x1, x2}, [](unsigned e){ return vf_map(e); }); puta(r, o, std::make_index_sequence<3>{}); }
void vf_array_join(unsigned x0, unsigned x1, unsigned y0, unsigned y1, unsigned y2, unsigned *o){ auto const r = fcppt::array::join(a2{x0, x1}, a3{y0, y1, y2}); static_assert(std::is_same_v<std::remove_cvref_t<decltype(r)>, a5>); puta(r, o, std::make_index_sequence<5>{}); }
void vf_array_append(unsigned x0, unsigned x1, unsigned y0, unsigned y1, unsigned y2, unsigned *o){ auto const r = fcppt::array::append(a2{x0, x1}, a3{y0, y1, y2}); puta(r, o, std::make_index_sequence<5>{}); }
void vf_array_push_back(unsigned x0, unsigned x1, unsigned y, unsigned *o){ auto const r = fcppt::array::push_back(a2{x0, x1}, y); puta(r, o, std::make_index_sequence<3>{}); }
void vf_array_init(unsigned *o){ auto const r = fcppt::array::init<a3>([]<std::size_t I>(std::integral_constant<std::size_t, I>){ return vf_init(static_cast<unsigned>(I)); }); puta(r, o, std::make_index_sequence<3>{}); }
void vf_tuple_map(unsigned x0, unsigned x1, unsigned *o){ auto const r = fcppt::tuple::map(fcppt::tuple::object<unsigned, unsigned>{x0, x1}, [](unsigned e){ return vf_map(e); }); o[0] = fcppt::tuple::get<0>(r); o[1] = fcppt::tuple::get<1>(r); }
void vf_tuple_concat(unsigned x0, int x1, unsigned y0, unsigned *o){ auto const r = fcppt::tuple::concat(fcppt::tuple::object<unsigned, int>{x0, x1}, fcppt::tuple::object<unsigned>{y0}); o[0] = fcppt::tuple::get<0>(r); o[1] = static_cast<unsigned>(fcppt::tuple::get<1>(r)); o[2] = fcppt::tuple::get<2>(r); }
void vf_tuple_push_back(unsigned x0, int x1, unsigned y, unsigned *o){ auto const r = fcppt::tuple::push_back(fcppt::tuple::object<unsigned, int>{x0, x1}, y); o[0] = fcppt::tuple::get<0>(r); o[1] = static_cast<unsigned>(fcppt::tuple::get<1>(r)); o[2] = fcppt::tuple::get<2>(r); }
}
