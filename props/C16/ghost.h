/* C16 ghost state: uninterpreted fold function / predicate / map function with call logs */
u32 __CPROVER_uninterpreted_af2(u32, u32);
u8 __CPROVER_uninterpreted_apred(u32);
u32 __CPROVER_uninterpreted_amap(u32);
static unsigned c_f2, c_pred, c_map, c_vis, c_tick; static u32 l_f2e[8], l_pred[8], l_map[8], l_vis[8];
