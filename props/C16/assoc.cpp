// C16 shim (associative helpers and the iteration helpers): the real fcppt templates instantiated on small fixed-capacity
// containers written here (harness code: a sorted-array map / set of capacity 6 with symbolic size, a slot map with stable
// iterators, the fixvec of shim.cpp) - no heap, no red-black tree. The "obvious loop" is the postcondition.
#include <fcppt/algorithm/map_iteration.hpp>
#include <fcppt/algorithm/map_iteration_second.hpp>
#include <fcppt/algorithm/sequence_iteration.hpp>
#include <fcppt/algorithm/update_action.hpp>
#include <fcppt/container/find_opt.hpp>
#include <fcppt/container/find_opt_mapped.hpp>
#include <fcppt/container/find_opt_iterator.hpp>
#include <fcppt/container/get_or_insert.hpp>
#include <fcppt/container/get_or_insert_with_result.hpp>
#include <fcppt/container/key_set.hpp>
#include <fcppt/container/map_values_copy.hpp>
#include <fcppt/container/set_union.hpp>
#include <fcppt/container/set_intersection.hpp>
#include <fcppt/container/set_difference.hpp>
#include <fcppt/container/contains.hpp>
#include <fcppt/container/join.hpp>
#include <fcppt/container/maybe_front.hpp>
#include <fcppt/container/maybe_back.hpp>
#include <fcppt/container/pop_front.hpp>
#include <fcppt/optional/object.hpp>
#include <fcppt/reference.hpp>
#include <cstddef>
#include <iterator>
#include <utility>
extern "C" { bool vf_pred(unsigned elem); unsigned vf_map(unsigned elem); }
struct fixvec {   // sequence with erase(iterator) for sequence_iteration
  using value_type = int; using size_type = std::size_t; using difference_type = std::ptrdiff_t; using reference = int &; using const_reference = int const &;
  using iterator = int *; using const_iterator = int const *;
  int d[4]; std::size_t n;
  iterator begin() { return d; } iterator end() { return d + n; } const_iterator begin() const { return d; } const_iterator end() const { return d + n; }
  size_type size() const { return n; } bool empty() const { return n == 0; }
  reference front() { return d[0]; } reference back() { return d[n - 1]; } const_reference front() const { return d[0]; } const_reference back() const { return d[n - 1]; }
  iterator erase(const_iterator p) { std::size_t const i = static_cast<std::size_t>(p - d); for (std::size_t k = i + 1; k < n && k < 4; ++k) d[k - 1] = d[k]; --n; return d + i; }
  void pop_front() { erase(d); }
  void push_back(int v) { d[n++] = v; }
  iterator insert(const_iterator, int v) { d[n] = v; return d + n++; }
};
struct fixset {   // sorted unique array, capacity 6
  using key_type = int; using value_type = int; using size_type = std::size_t; using difference_type = std::ptrdiff_t; using reference = int const &; using const_reference = int const &;
  using iterator = int const *; using const_iterator = int const *;
  int d[6]; std::size_t n;
  fixset() : d{0, 0, 0, 0, 0, 0}, n(0) {}
  iterator begin() const { return d; } iterator end() const { return d + n; } size_type size() const { return n; } bool empty() const { return n == 0; }
  iterator find(int k) const { for (std::size_t i = 0; i < 6 && i < n; ++i) if (d[i] == k) return d + i; return d + n; }
  size_type count(int k) const { return find(k) != end() ? 1U : 0U; }
  std::pair<iterator, bool> insert(int v) { std::size_t i = 0; while (i < n && i < 6 && d[i] < v) ++i; if (i < n && d[i] == v) return {d + i, false}; for (std::size_t k = n; k > i; --k) d[k] = d[k - 1]; d[i] = v; ++n; return {d + i, true}; }
  iterator insert(const_iterator, int v) { return insert(v).first; }   // the hint is only a hint
};
struct fixmap {   // sorted array of (key, mapped), capacity 4
  using key_type = int; using mapped_type = int; using value_type = std::pair<int, int>; using size_type = std::size_t; using difference_type = std::ptrdiff_t;
  using reference = value_type &; using const_reference = value_type const &; using iterator = value_type *; using const_iterator = value_type const *;
  value_type d[4]; std::size_t n;
  iterator begin() { return d; } iterator end() { return d + n; } const_iterator begin() const { return d; } const_iterator end() const { return d + n; } size_type size() const { return n; }
  iterator find(int k) { for (std::size_t i = 0; i < 4 && i < n; ++i) if (d[i].first == k) return d + i; return d + n; }
  const_iterator find(int k) const { for (std::size_t i = 0; i < 4 && i < n; ++i) if (d[i].first == k) return d + i; return d + n; }
  template <typename It> void insert(It f, It l) { for (; f != l; ++f) emplace((*f).first, (*f).second); }   // associative range insert: present keys keep their value
  void swap(fixmap &o) { fixmap t{*this}; *this = o; o = t; }
  std::pair<iterator, bool> emplace(int k, int m) { std::size_t i = 0; while (i < n && i < 4 && d[i].first < k) ++i; if (i < n && d[i].first == k) return {d + i, false}; for (std::size_t j = n; j > i; --j) d[j] = d[j - 1]; d[i] = value_type{k, m}; ++n; return {d + i, true}; }
};
struct slotmap {   // node-like container: erasing an element leaves every other iterator valid (what map_iteration relies on)
  using key_type = int; using mapped_type = int; using value_type = std::pair<int, int>; using size_type = std::size_t;
  value_type d[3]; bool alive[3];
  struct iterator { slotmap *m; std::size_t i;
    value_type &operator*() const { return m->d[i]; } value_type *operator->() const { return &m->d[i]; }
    iterator &operator++() { do { ++i; } while (i < 3 && !m->alive[i]); return *this; }
    bool operator==(iterator const &o) const { return i == o.i; } bool operator!=(iterator const &o) const { return i != o.i; } };
  iterator begin() { std::size_t i = 0; while (i < 3 && !alive[i]) ++i; return iterator{this, i}; } iterator end() { return iterator{this, 3}; }
  void erase(iterator it) { alive[it.i] = false; }
};
#define KV int k0, int m0, int k1, int m1, int k2, int m2, std::size_t n
#define MKM fixmap c{{{k0, m0}, {k1, m1}, {k2, m2}, {0, 0}}, n}
static void putm(fixmap const &c, std::size_t *on, int *o){ *on = c.n; for (std::size_t i = 0; i < 4 && i < c.n; ++i) { o[2 * i] = c.d[i].first; o[2 * i + 1] = c.d[i].second; } }
static void puts(fixset const &c, std::size_t *on, int *o){ *on = c.n; for (std::size_t i = 0; i < 6 && i < c.n; ++i) o[i] = c.d[i]; }
static fixset mks(int a0, int a1, int a2, std::size_t n){ fixset s; s.d[0] = a0; s.d[1] = a1; s.d[2] = a2; s.n = n; return s; }
extern "C" {
long vf_find_opt_mapped(KV, int key, int *val){ MKM; auto const r = fcppt::container::find_opt_mapped(c, key); if (r.has_value()) { *val = r.get_unsafe().get(); return &r.get_unsafe().get() - &c.d[0].second; } return -1; }
long vf_find_opt_c(KV, int key){ MKM; auto const r = fcppt::container::find_opt(c, key); return r.has_value() ? &r.get_unsafe().get() - c.d : -1; }
int vf_get_or_insert(KV, int key, bool *inserted, std::size_t *on, int *o){ MKM; auto const r = fcppt::container::get_or_insert_with_result(c, key, [](int k){ return static_cast<int>(vf_map(static_cast<unsigned>(k))); }); *inserted = r.inserted(); int const v = r.element(); putm(c, on, o); return v; }
int vf_get_or_insert_plain(KV, int key, std::size_t *on, int *o){ MKM; int &r = fcppt::container::get_or_insert(c, key, [](int k){ return static_cast<int>(vf_map(static_cast<unsigned>(k))); }); int const v = r; putm(c, on, o); return v; }
void vf_key_set(KV, std::size_t *on, int *o){ MKM; fixset const s{fcppt::container::key_set<fixset>(c)}; puts(s, on, o); }
void vf_map_values(KV, std::size_t *on, int *o){ MKM; fixvec const s{fcppt::container::map_values_copy<fixvec>(c)}; *on = s.n; for (std::size_t i = 0; i < 4 && i < s.n; ++i) o[i] = s.d[i]; }
#define TWOS int a0, int a1, int a2, std::size_t na, int b0, int b1, int b2, std::size_t nb
void vf_set_union(TWOS, std::size_t *on, int *o){ fixset const a{mks(a0, a1, a2, na)}, b{mks(b0, b1, b2, nb)}; puts(fcppt::container::set_union(a, b), on, o); }
void vf_set_intersection(TWOS, std::size_t *on, int *o){ fixset const a{mks(a0, a1, a2, na)}, b{mks(b0, b1, b2, nb)}; puts(fcppt::container::set_intersection(a, b), on, o); }
void vf_set_difference(TWOS, std::size_t *on, int *o){ fixset const a{mks(a0, a1, a2, na)}, b{mks(b0, b1, b2, nb)}; puts(fcppt::container::set_difference(a, b), on, o); }
void vf_join_maps_lr(int k0, int m0, int k1, int m1, std::size_t n1, int j0, int p0, int j1, int p1, std::size_t n2, std::size_t *on, int *o){ fixmap a{{{k0, m0}, {k1, m1}, {0, 0}, {0, 0}}, n1}; fixmap b{{{j0, p0}, {j1, p1}, {0, 0}, {0, 0}}, n2}; putm(fcppt::container::join(a, std::move(b)), on, o); }
void vf_join_maps_rr(int k0, int m0, int k1, int m1, std::size_t n1, int j0, int p0, int j1, int p1, std::size_t n2, std::size_t *on, int *o){ fixmap a{{{k0, m0}, {k1, m1}, {0, 0}, {0, 0}}, n1}; fixmap b{{{j0, p0}, {j1, p1}, {0, 0}, {0, 0}}, n2}; putm(fcppt::container::join(std::move(a), std::move(b)), on, o); }
bool vf_container_contains(int a0, int a1, int a2, std::size_t n, int key){ fixset const a{mks(a0, a1, a2, n)}; return fcppt::container::contains(a, key); }
// iteration helpers
void vf_sequence_iteration(int a0, int a1, int a2, std::size_t n, std::size_t *on, int *o){ fixvec c{{a0, a1, a2, 0}, n};
  fcppt::algorithm::sequence_iteration(c, [](int e){ return vf_pred(static_cast<unsigned>(e)) ? fcppt::algorithm::update_action::remove : fcppt::algorithm::update_action::keep; });
  *on = c.n; for (std::size_t i = 0; i < 4 && i < c.n; ++i) o[i] = c.d[i]; }
void vf_map_iteration(int k0, int k1, int k2, bool l0, bool l1, bool l2, bool *alive){ slotmap c{{{k0, 0}, {k1, 0}, {k2, 0}}, {l0, l1, l2}};
  fcppt::algorithm::map_iteration(c, [](std::pair<int, int> const &e){ return vf_pred(static_cast<unsigned>(e.first)) ? fcppt::algorithm::update_action::remove : fcppt::algorithm::update_action::keep; });
  alive[0] = c.alive[0]; alive[1] = c.alive[1]; alive[2] = c.alive[2]; }
void vf_map_iteration_second(int k0, int k1, int k2, bool l0, bool l1, bool l2, bool *alive){ slotmap c{{{0, k0}, {1, k1}, {2, k2}}, {l0, l1, l2}};
  fcppt::algorithm::map_iteration_second(c, [](int const &e){ return vf_pred(static_cast<unsigned>(e)) ? fcppt::algorithm::update_action::remove : fcppt::algorithm::update_action::keep; });
  alive[0] = c.alive[0]; alive[1] = c.alive[1]; alive[2] = c.alive[2]; }
// front / back / pop_front on a sequence
long vf_maybe_front_back(int a0, int a1, int a2, std::size_t n, long *back){ fixvec c{{a0, a1, a2, 0}, n}; auto const f = fcppt::container::maybe_front(c); auto const b = fcppt::container::maybe_back(c); *back = b.has_value() ? &b.get_unsafe().get() - c.d : -1; return f.has_value() ? &f.get_unsafe().get() - c.d : -1; }
bool vf_pop_front(int a0, int a1, int a2, std::size_t n, int *val, std::size_t *on, int *o){ fixvec c{{a0, a1, a2, 0}, n}; auto const r = fcppt::container::pop_front(c); if (r.has_value()) *val = r.get_unsafe(); *on = c.n; for (std::size_t i = 0; i < 4 && i < c.n; ++i) o[i] = c.d[i]; return r.has_value(); }
}
