"""C16 - algorithm helpers equal their straightforward (loop) reference, visit in order, stop where documented."""
import itertools
from vf.plan import Plan

G = 'c_f2, c_pred, c_map, c_vis, c_tick, __CPROVER_object_whole(l_f2e), __CPROVER_object_whole(l_pred), __CPROVER_object_whole(l_map), __CPROVER_object_whole(l_vis)'
A = ['a0', 'a1', 'a2']
Pd = lambda x: '(__CPROVER_uninterpreted_apred(%s) & 1)' % x
F2 = lambda e, s: '__CPROVER_uninterpreted_af2(%s, %s)' % (e, s)
Mp = lambda x: '__CPROVER_uninterpreted_amap(%s)' % x
PRE = 'n <= 3 && c_f2 == 0 && c_pred == 0 && c_map == 0 && c_vis == 0 && c_tick == 0'
FRO = '__CPROVER_is_fresh(on, 8) && __CPROVER_is_fresh(o, 16)'
OUTS = '*on, __CPROVER_object_whole(o)'


B3 = lambda *bs: ' && '.join('(%s == 0 || %s == 1)' % (b, b) for b in bs)


def by_n(f):
    """expression selected by the symbolic size n in 0..3: f(k) for n == k"""
    return '(n == 0 ? %s : (n == 1 ? %s : (n == 2 ? %s : %s)))' % (f(0), f(1), f(2), f(3))


def first_idx(cond, n):
    """index of the first k < n with cond(k), else n - as a C expression for concrete n"""
    e = str(n)
    for k in reversed(range(n)):
        e = '(%s ? %d : %s)' % (cond(k), k, e)
    return e


def filtered(keep, val, outn='*on', out='o'):
    """postcondition: the output is exactly the subsequence of elements k < n with keep(k), mapped through val"""
    cl = []
    for m in itertools.product((0, 1), repeat=3):
        cond = ' && '.join(('(%d < n && %s)' % (k, keep(k))) if m[k] else ('!(%d < n && %s)' % (k, keep(k))) for k in range(3))
        kept = [k for k in range(3) if m[k]]
        res = ' && '.join(['%s == %d' % (outn, len(kept))] + ['%s[%d] == %s' % (out, j, val(k)) for j, k in enumerate(kept)])
        cl.append('VF_IMP(%s, %s)' % (cond, res))
    return cl


def make(tier):
    P = Plan('C16', level='proof', design_ref='DESIGN.md section 5 C16')
    P.meta += ['the algorithms are templates over the range type; they are instantiated on a fixed-capacity container with symbolic size 0..3 and symbolic elements, with uninterpreted functions/predicates: every loop is bounded by the capacity, the contracts are the obvious loop written out per size']
    P.not_decided += ['std::vector / std::list / std::deque / std::set / std::map instantiations (heap and red-black-tree code)', 'join_strings on std::string (heap): checked on a fixed-capacity string type instead', 'split_string and the split/join round trip (result in a std::vector: did not close, DESIGN.md 10.6)', 'find_opt_mapped / get_or_insert / key_set / map_values / set_union / set_intersection / set_difference / map_iteration on std::map / std::set (red-black tree code in libstdc++.so): they are under contract on fixed-capacity sorted-array / slot containers written in the shim']
    C = {}
    st = lambda k: 'init' if k == 0 else F2(A[k - 1], st(k - 1))
    C['vf_fold'] = ([PRE], G, ['__CPROVER_return_value == %s' % by_n(st), 'c_f2 == n', ' && '.join('VF_IMP(%d < n, l_f2e[%d] == a%d)' % (k, k, k) for k in range(3))], 'fold: left fold over all elements in order')
    brk = lambda n: first_idx(lambda k: Pd(A[k]), n)      # first index with the break predicate
    C['vf_fold_break'] = ([PRE], G, ['__CPROVER_return_value == %s' % by_n(lambda n: '(%s == 0 && %d > 0 ? %s : (%s <= 1 && %d > 1 ? %s : (%s <= 2 && %d > 2 ? %s : %s)))' % (brk(n), n, st(1), brk(n), n, st(2), brk(n), n, st(3), st(n)) if n else 'init'),
                                     'c_f2 == %s' % by_n(lambda n: '(%s < %d ? %s + 1 : %d)' % (brk(n), n, brk(n), n) if n else '0')], 'fold_break: folds up to and including the first element for which the function asks to break')
    C['vf_all_of'] = ([PRE], G, ['__CPROVER_return_value == (%s)' % ' && '.join('(!(%d < n) || %s)' % (k, Pd(A[k])) for k in range(3)),
                                 'c_pred == %s' % by_n(lambda n: ('(%s < %d ? %s + 1 : %d)' % (first_idx(lambda k: '!' + Pd(A[k]), n), n, first_idx(lambda k: '!' + Pd(A[k]), n), n)) if n else '0')], 'all_of: conjunction, stops at the first counterexample')
    anyeq = '(' + ' || '.join('(%d < n && a%d == x)' % (k, k) for k in range(3)) + ')'
    fi = lambda cond: by_n(lambda n: '((i64)%s == %d ? (i64)-1 : (i64)%s)' % (first_idx(cond, n), n, first_idx(cond, n)) if n else '(i64)-1')
    C['vf_contains'] = ([PRE], G, ['__CPROVER_return_value == %s' % anyeq], 'contains')
    C['vf_contains_if'] = ([PRE], G, ['__CPROVER_return_value == (%s)' % ' || '.join('(%d < n && %s)' % (k, Pd(A[k])) for k in range(3))], 'contains_if')
    C['vf_find_opt'] = ([PRE], G, ['(i64)__CPROVER_return_value == %s' % fi(lambda k: 'a%d == x' % k)], 'find_opt: position of the first equal element')
    C['vf_index_of'] = ([PRE], G, ['(i64)__CPROVER_return_value == %s' % fi(lambda k: 'a%d == x' % k)], 'index_of: index of the first equal element')
    C['vf_find_if_opt'] = ([PRE], G, ['(i64)__CPROVER_return_value == %s' % fi(lambda k: Pd(A[k]))], 'find_if_opt: position of the first element satisfying the predicate')
    C['vf_loop'] = ([PRE], G, ['c_vis == n', ' && '.join('VF_IMP(%d < n, l_vis[%d] == a%d)' % (k, k, k) for k in range(3))], 'loop: visits every element once, in order')
    C['vf_loop_break'] = ([PRE], G, ['c_vis == %s' % by_n(lambda n: '(%s < %d ? %s + 1 : %d)' % (brk(n), n, brk(n), n) if n else '0'), ' && '.join('VF_IMP(%d < c_vis, l_vis[%d] == a%d)' % (k, k, k) for k in range(3))], 'loop_break: visits in order and stops after the first element that asks to break')
    C['vf_remove'] = ([PRE, FRO], G + ', ' + OUTS, ['__CPROVER_return_value == %s' % anyeq] + filtered(lambda k: 'a%d != x' % k, lambda k: 'a%d' % k), 'remove(value): exactly the elements different from the value, in order; true iff something was removed')
    ak = '(k == 0 ? a0 : (k == 1 ? a1 : a2))'
    C['vf_remove_alias'] = ([PRE, FRO, 'k < n'], G + ', ' + OUTS, ['__CPROVER_return_value == 1'] + filtered(lambda k: 'a%d != %s' % (k, ak), lambda k: 'a%d' % k), 'remove(c, c[k]): the value aliases an element of the container - all elements equal to its ORIGINAL value are removed, the others kept')
    C['vf_remove_if'] = ([PRE, FRO], G + ', ' + OUTS, ['__CPROVER_return_value == (%s)' % ' || '.join('(%d < n && %s)' % (k, Pd(A[k])) for k in range(3))] + filtered(lambda k: '!' + Pd(A[k]), lambda k: 'a%d' % k), 'remove_if: exactly the elements not satisfying the predicate, in order')
    C['vf_unique'] = ([PRE, FRO], G + ', ' + OUTS, filtered(lambda k: '1' if k == 0 else 'a%d != a%d' % (k, k - 1), lambda k: 'a%d' % k), 'unique: removes consecutive duplicates')
    C['vf_reverse'] = ([PRE, FRO], G + ', ' + OUTS, ['*on == n', by_n(lambda n: ' && '.join('o[%d] == a%d' % (j, n - 1 - j) for j in range(n)) or '1')], 'reverse')
    C['vf_map_c'] = ([PRE, FRO], G + ', ' + OUTS, ['*on == n && c_map == n', ' && '.join('VF_IMP(%d < n, o[%d] == %s && l_map[%d] == a%d)' % (k, k, Mp(A[k]), k, k) for k in range(3))], 'map: f applied to every element once, in order, results in order')
    C['vf_map_optional'] = ([PRE, FRO], G + ', ' + OUTS, filtered(lambda k: Pd(A[k]), lambda k: Mp(A[k])), 'map_optional: the results of the elements whose function result is set, in order')
    C['vf_repeat'] = (['cnt <= 5 && c_tick == 0'], G, ['c_tick == cnt'], 'repeat(n, f): f invoked exactly n times')
    uniq = lambda n: ['(a%d == x%s)' % (k, ''.join(' && a%d != x' % j for j in range(n) if j != k)) for k in range(n)]
    C['vf_binary_search'] = ([PRE, '(n < 2 || (i32)a0 <= (i32)a1) && (n < 3 || (i32)a1 <= (i32)a2)'], G,
                             ['(i64)__CPROVER_return_value == %s' % by_n(lambda n: '(' + ''.join('%s ? (i64)%d : ' % (u, k) for k, u in enumerate(uniq(n))) + '(i64)-1)' if n else '(i64)-1')], 'binary_search on a sorted range: the element iff exactly one element is equivalent to the value (as documented)')
    SORTED = '(n < 2 || (i32)a0 <= (i32)a1) && (n < 3 || (i32)a1 <= (i32)a2)'
    cntc = lambda op: ' + '.join('((%d < n && (i32)a%d %s (i32)x) ? 1 : 0)' % (k, k, op) for k in range(3))
    C['vf_equal_range'] = ([PRE, SORTED, '__CPROVER_is_fresh(lo, 8) && __CPROVER_is_fresh(hi, 8)'], G + ', *lo, *hi', ['*lo == %s' % cntc('<'), '*hi == %s' % cntc('<=')], 'equal_range on a sorted range: [number of smaller elements, number of not greater elements)')
    fpi = lambda n: first_idx(lambda k: Pd(A[k]), n)
    C['vf_find_by_opt'] = ([PRE, '__CPROVER_is_fresh(val, 4)'], G + ', *val', ['__CPROVER_return_value == (%s)' % ' || '.join('(%d < n && %s)' % (k, Pd(A[k])) for k in range(3)),
                            by_n(lambda n: ' && '.join('VF_IMP(%s == %d, *val == %s)' % (fpi(n), k, Mp(A[k])) for k in range(n)) or '1'),
                            'c_pred == %s' % by_n(lambda n: '(%s < %d ? %s + 1 : %d)' % (fpi(n), n, fpi(n), n) if n else '0')], 'find_by_opt: the result of the first element whose function result is set; stops there')
    C['vf_generate_n'] = (['cnt <= 3 && c_map == 0', FRO], G + ', ' + OUTS, ['*on == cnt && c_map == cnt', ' && '.join('VF_IMP(%d < cnt, o[%d] == %s)' % (k, k, Mp('7')) for k in range(3))], 'generate_n: the function is invoked exactly n times, results in order')
    P2 = lambda x, y: '(%s & 1)' % F2(x, y)
    k1 = '!' + P2('a0', 'a1')
    k2 = '!' + P2('((%s) ? a1 : a0)' % k1, 'a2')
    C['vf_unique_if'] = ([PRE, FRO], G + ', ' + OUTS, filtered(lambda k: ['1', k1, k2][k], lambda k: 'a%d' % k), 'unique_if: an element is dropped iff the predicate holds for (last kept element, element)')
    C['vf_at_optional'] = ([PRE], G, ['(i64)__CPROVER_return_value == (idx < n ? (i64)idx : (i64)-1)'], 'at_optional: the element at the index iff the index is in range')
    C['vf_map_concat_c'] = ([PRE, FRO], G + ', ' + OUTS, filtered(lambda k: Pd(A[k]), lambda k: Mp(A[k])), 'map_concat: the concatenation of the per-element results, in order')
    spec = ''
    for f, (req, asg, ens, what) in C.items():
        spec += 'function %s\n' % f + ''.join('  __CPROVER_requires(%s)\n' % r for r in req) + '  __CPROVER_assigns(%s)\n' % asg + ''.join('  __CPROVER_ensures(%s)\n' % e for e in ens)
    P.generated['c16.spec'] = spec
    u = P.unit('alg', 'shim.cpp', specs=['c16.spec'], harness=['harness.c'], pre=['ghost.h'], inline=True)
    for f, (req, asg, ens, what) in C.items():
        u.contract(f, cls='W', unwind=8, bound='container capacity 4, symbolic size 0..3 (repeat: count <= 5); loops bounded by the capacity, unwinding assertions on', backends=['sat', 'cvc5'], what=what, native=False, timeout=900)
    # fixed-arity array / tuple helpers (loop-free: P)
    M2 = lambda x: '__CPROVER_uninterpreted_amap(%s)' % x
    D = {}
    fo = lambda n: '__CPROVER_is_fresh(o, %d)' % (4 * n)
    D['vf_array_map'] = (fo(3), 'o[0] == %s && o[1] == %s && o[2] == %s && c_map == 3 && l_map[0] == x0 && l_map[1] == x1 && l_map[2] == x2' % (M2('x0'), M2('x1'), M2('x2')), 'array::map: f on every element, in index order')
    D['vf_array_join'] = (fo(5), 'o[0] == x0 && o[1] == x1 && o[2] == y0 && o[3] == y1 && o[4] == y2', 'array::join concatenates')
    D['vf_array_append'] = (fo(5), 'o[0] == x0 && o[1] == x1 && o[2] == y0 && o[3] == y1 && o[4] == y2', 'array::append concatenates')
    D['vf_array_push_back'] = (fo(3), 'o[0] == x0 && o[1] == x1 && o[2] == y', 'array::push_back appends')
    D['vf_array_init'] = (fo(3), 'o[0] == __CPROVER_uninterpreted_ainit(0) && o[1] == __CPROVER_uninterpreted_ainit(1) && o[2] == __CPROVER_uninterpreted_ainit(2) && c_init == 3', 'array::init: element i is f(i), f invoked once per index')
    D['vf_tuple_map'] = (fo(2), 'o[0] == %s && o[1] == %s && c_map == 2' % (M2('x0'), M2('x1')), 'tuple::map')
    D['vf_tuple_concat'] = (fo(3), 'o[0] == x0 && o[1] == x1 && o[2] == y0', 'tuple::concat')
    D['vf_tuple_push_back'] = (fo(3), 'o[0] == x0 && o[1] == x1 && o[2] == y', 'tuple::push_back')
    spec2 = ''
    for f, (req, ens, what) in D.items():
        spec2 += 'function %s\n  __CPROVER_requires(%s && c_map == 0 && c_init == 0)\n  __CPROVER_assigns(__CPROVER_object_whole(o), c_map, c_init, __CPROVER_object_whole(l_map))\n  __CPROVER_ensures(%s)\n' % (f, req, ens)
    P.generated['arr.spec'] = spec2
    P.generated['arr_ghost.h'] = 'u32 __CPROVER_uninterpreted_amap(u32);\nu32 __CPROVER_uninterpreted_ainit(u32);\nstatic unsigned c_map, c_init; static u32 l_map[8];\n'
    P.generated['arr_h.c'] = 'u32 vf_map(u32 e){ if (c_map < 8) l_map[c_map] = e; ++c_map; return __CPROVER_uninterpreted_amap(e); }\nu32 vf_init(u32 i){ ++c_init; return __CPROVER_uninterpreted_ainit(i); }\n'
    u2 = P.unit('arr', 'arr.cpp', specs=['arr.spec'], harness=['arr_h.c'], pre=['arr_ghost.h'], inline=True)
    for f, (req, ens, what) in D.items():
        u2.contract(f, cls='P', backends=['sat', 'cvc5'], what=what, native=False, timeout=600)
    # ---- join_strings / split_string on a fixed-capacity string type (str.cpp) ----
    PC = lambda k, j: 'p%d%d' % (k, j)
    jens = []
    for n in range(4):
        for lens in itertools.product(range(3), repeat=n):
            for ld in range(3):
                exp = []
                for k in range(n):
                    exp += [PC(k, j) for j in range(lens[k])]
                    if k + 1 < n:
                        exp += ['d%d' % j for j in range(ld)]
                cond = ' && '.join(['n == %d' % n] + ['l%d == %d' % (k, lens[k]) for k in range(n)] + ['ld == %d' % ld])
                jens.append('VF_IMP(%s, %s)' % (cond, ' && '.join(['*on == %d' % len(exp)] + ['o[%d] == %s' % (i, e) for i, e in enumerate(exp)])))
    S = {}
    S['vf_join_strings'] = (['n <= 3 && l0 <= 2 && l1 <= 2 && l2 <= 2 && ld <= 2', '__CPROVER_is_fresh(on, 8) && __CPROVER_is_fresh(o, 12)'], '*on, __CPROVER_object_whole(o)', jens,
                            'join_strings: p1 + d + p2 + d + p3 for every number (0..3) and length (0..2) of parts and every delimiter length (0..2) - in particular empty parts at the front', True)
    sens = []
    for n in range(4):
        for mask in itertools.product((0, 1), repeat=n):
            pieces, cur = [], []
            for k in range(n):
                if mask[k]:
                    pieces.append(cur); cur = []
                else:
                    cur.append('c%d' % k)
            pieces.append(cur)
            cond = ' && '.join(['n == %d' % n] + [('c%d == delim' if mask[k] else 'c%d != delim') % k for k in range(n)])
            res = ['*cnt == %d' % len(pieces)] + ['lens[%d] == %d' % (i, len(pc)) for i, pc in enumerate(pieces)] + ['o[%d] == %s' % (i * 3 + j, ch) for i, pc in enumerate(pieces) for j, ch in enumerate(pc)]
            sens.append('VF_IMP(%s, %s)' % (cond, ' && '.join(res)))
    S['vf_split_string'] = (['n <= 3', '__CPROVER_is_fresh(cnt, 8) && __CPROVER_is_fresh(lens, 32) && __CPROVER_is_fresh(o, 12)'], '*cnt, __CPROVER_object_whole(lens), __CPROVER_object_whole(o)', sens,
                            'split_string: the pieces between the delimiter positions, in order, m + 1 pieces for m delimiters (result in a real std::vector)', False)
    S['vf_split_join'] = (['n <= 3', '__CPROVER_is_fresh(on, 8) && __CPROVER_is_fresh(o, 4)'], '*on, __CPROVER_object_whole(o)', ['*on == n && VF_IMP(n > 0, o[0] == c0) && VF_IMP(n > 1, o[1] == c1) && VF_IMP(n > 2, o[2] == c2)'],
                          'split_string is inverted by join_strings (strings of up to 3 characters, every delimiter)', False)
    spec3 = ''
    for f, (req, asg, ens, what, quick) in S.items():
        spec3 += 'function %s\n' % f + ''.join('  __CPROVER_requires(%s)\n' % r for r in req) + '  __CPROVER_assigns(%s)\n' % asg + ''.join('  __CPROVER_ensures(%s)\n' % e for e in ens)
    P.generated['str.spec'] = spec3
    u3 = P.unit('str', 'str.cpp', specs=['str.spec'], inline=True)
    for f, (req, asg, ens, what, quick) in S.items():
        if quick:
            u3.contract(f, cls='W', unwind=14, bound='fixed-capacity string type (12 characters): at most 3 parts of length <= 2, delimiter of length <= 2; loops bounded by the capacity, unwinding assertions on', backends=['sat', 'cvc5'], what=what, timeout=900)
        # split_string / split_join: the result lives in a real std::vector; measured: 12 GB / 15 min under --dfcc and 24 GB without (strings of <= 3 characters,
        # capacity-4 string type, unwind 6) - not registered as jobs, listed as not decided (DESIGN.md 10.6). The contracts stay in str.spec for the record.
    # ---- associative helpers and iteration helpers on fixed-capacity harness containers (assoc.cpp)
    Z = 'c_f2 == 0 && c_pred == 0 && c_map == 0 && c_vis == 0 && c_tick == 0'
    KS = ['k0', 'k1', 'k2']; MS = ['m0', 'm1', 'm2']
    SORTK = 'n <= 3 && (n < 2 || (i32)k0 < (i32)k1) && (n < 3 || (i32)k1 < (i32)k2)'
    fidx = lambda n_: first_idx(lambda k: '%s == key' % KS[k], n_)          # index of the key among the first n_ entries, else n_
    found = '(' + ' || '.join('(%d < n && %s == key)' % (k, KS[k]) for k in range(3)) + ')'
    mfound = '(0 < n && k0 == key ? m0 : (1 < n && k1 == key ? m1 : m2))'
    ifound = '(0 < n && k0 == key ? 0 : (1 < n && k1 == key ? 1 : 2))'
    pos = '(' + ' + '.join('((%d < n && (i32)%s < (i32)key) ? 1 : 0)' % (k, KS[k]) for k in range(3)) + ')'
    FRM = '__CPROVER_is_fresh(on, 8) && __CPROVER_is_fresh(o, 32)'
    Q = {}
    Q['vf_find_opt_mapped'] = ([SORTK, Z, '__CPROVER_is_fresh(val, 4)'], G + ', *val', ['(i64)__CPROVER_return_value == (%s ? (i64)(2 * %s) : (i64)-1)' % (found, ifound), 'VF_IMP(%s, *val == %s)' % (found, mfound)], 'find_opt_mapped: a reference to the mapped value of the key iff the key is present')
    Q['vf_find_opt_c'] = ([SORTK, Z], G, ['(i64)__CPROVER_return_value == (%s ? (i64)%s : (i64)-1)' % (found, ifound)], 'container::find_opt: the element with the key iff present')
    after = ['*on == n + (%s ? 0 : 1)' % found] + ['VF_IMP(%d < n, o[2 * (%d + ((!%s && (i32)key < (i32)%s) ? 1 : 0))] == %s && o[2 * (%d + ((!%s && (i32)key < (i32)%s) ? 1 : 0)) + 1] == %s)' % (k, k, found, KS[k], KS[k], k, found, KS[k], MS[k]) for k in range(3)] + \
            ['VF_IMP(!%s, o[2 * %s] == key && o[2 * %s + 1] == %s)' % (found, pos, pos, Mp('key'))]
    Q['vf_get_or_insert'] = ([SORTK, Z, FRM + ' && __CPROVER_is_fresh(inserted, 1)'], G + ', ' + OUTS + ', *inserted', ['__CPROVER_return_value == (%s ? %s : %s)' % (found, mfound, Mp('key')), '*inserted == !%s' % found, 'c_map == (%s ? 0 : 1)' % found, 'VF_IMP(!%s, l_map[0] == key)' % found] + after,
                             'get_or_insert_with_result: the mapped value of a present key (nothing inserted, create not called), otherwise create(key) is called exactly once, inserted under the key and returned with inserted == true; every other entry is unchanged')
    Q['vf_get_or_insert_plain'] = ([SORTK, Z, FRM], G + ', ' + OUTS, ['__CPROVER_return_value == (%s ? %s : %s)' % (found, mfound, Mp('key')), 'c_map == (%s ? 0 : 1)' % found] + after, 'get_or_insert: same, returning the element')
    Q['vf_key_set'] = ([SORTK, Z, FRM], G + ', ' + OUTS, ['*on == n', ' && '.join('VF_IMP(%d < n, o[%d] == %s)' % (k, k, KS[k]) for k in range(3))], 'key_set: exactly the keys')
    Q['vf_map_values'] = ([SORTK, Z, FRM], G + ', ' + OUTS, ['*on == n', ' && '.join('VF_IMP(%d < n, o[%d] == %s)' % (k, k, MS[k]) for k in range(3))], 'map_values_copy: the mapped values in key order')
    SA = 'na <= 3 && (na < 2 || (i32)a0 < (i32)a1) && (na < 3 || (i32)a1 < (i32)a2)'
    SB = 'nb <= 3 && (nb < 2 || (i32)b0 < (i32)b1) && (nb < 3 || (i32)b1 < (i32)b2)'
    inA = lambda x: '(' + ' || '.join('(%d < na && a%d == %s)' % (k, k, x) for k in range(3)) + ')'
    inB = lambda x: '(' + ' || '.join('(%d < nb && b%d == %s)' % (k, k, x) for k in range(3)) + ')'
    inR = lambda x: '(' + ' || '.join('(%d < *on && o[%d] == %s)' % (k, k, x) for k in range(6)) + ')'
    sortedR = '*on <= 6 && ' + ' && '.join('VF_IMP(%d < *on, (i32)o[%d] < (i32)o[%d])' % (k + 1, k, k + 1) for k in range(5))
    def setspec(member):
        cl = [sortedR]
        cl += ['VF_IMP(%d < na && %s, %s)' % (k, member('a%d' % k), inR('a%d' % k)) for k in range(3)]
        cl += ['VF_IMP(%d < nb && %s, %s)' % (k, member('b%d' % k), inR('b%d' % k)) for k in range(3)]
        cl += ['VF_IMP(%d < *on, %s)' % (k, member('o[%d]' % k)) for k in range(6)]
        return cl
    Q['vf_set_union'] = ([SA, SB, Z, FRM] + ([] if tier == 'thorough' else ['na <= 2 && nb <= 2']), G + ', ' + OUTS, setspec(lambda x: '(%s || %s)' % (inA(x), inB(x))), 'set_union: exactly the elements of either set, each once, in order')
    Q['vf_set_intersection'] = ([SA, SB, Z, FRM], G + ', ' + OUTS, setspec(lambda x: '(%s && %s)' % (inA(x), inB(x))), 'set_intersection: exactly the common elements')
    Q['vf_set_difference'] = ([SA, SB, Z, FRM], G + ', ' + OUTS, setspec(lambda x: '(%s && !%s)' % (inA(x), inB(x))), 'set_difference: exactly the elements of the first set that are not in the second')
    Q['vf_container_contains'] = (['n <= 3 && (n < 2 || (i32)a0 < (i32)a1) && (n < 3 || (i32)a1 < (i32)a2)', Z], G, ['__CPROVER_return_value == (%s)' % ' || '.join('(%d < n && a%d == key)' % (k, k) for k in range(3))], 'container::contains: membership')
    Q['vf_sequence_iteration'] = ([PRE, FRO], G + ', ' + OUTS, filtered(lambda k: '!' + Pd(A[k]), lambda k: 'a%d' % k) + ['c_pred == n', ' && '.join('VF_IMP(%d < n, l_pred[%d] == a%d)' % (k, k, k) for k in range(3))],
                                  'sequence_iteration: the action is applied to every element exactly once, in order; exactly the elements whose action is remove are erased')
    LV = ['l0', 'l1', 'l2']
    cnt = ' + '.join('(%s ? 1 : 0)' % l for l in LV)
    for nm, txt in (('vf_map_iteration', 'map_iteration'), ('vf_map_iteration_second', 'map_iteration_second')):
        Q[nm] = ([Z, B3(*LV), '__CPROVER_is_fresh(alive, 3)'], G + ', __CPROVER_object_whole(alive)', [' && '.join('alive[%d] == (%s && !%s)' % (k, LV[k], Pd(KS[k])) for k in range(3)), 'c_pred == %s' % cnt],
                 txt + ': the action is applied to every element exactly once; exactly the elements whose action is remove are erased, the others stay')
    Q['vf_maybe_front_back'] = ([PRE, '__CPROVER_is_fresh(back, 8)'], G + ', *back', ['(i64)__CPROVER_return_value == (n == 0 ? (i64)-1 : (i64)0)', '(i64)*back == (n == 0 ? (i64)-1 : (i64)n - 1)'], 'maybe_front / maybe_back: the first / last element iff the container is not empty')
    Q['vf_pop_front'] = ([PRE, FRO + ' && __CPROVER_is_fresh(val, 4)'], G + ', ' + OUTS + ', *val', ['__CPROVER_return_value == (n > 0)', 'VF_IMP(n > 0, *val == a0 && *on == n - 1 && VF_IMP(n > 1, o[0] == a1) && VF_IMP(n > 2, o[1] == a2))', 'VF_IMP(n == 0, *on == 0)'], 'pop_front: removes and returns the first element, the rest keeps its order')
    J1 = 'n1 <= 2 && (n1 < 2 || (i32)k0 < (i32)k1) && n2 <= 2 && (n2 < 2 || (i32)j0 < (i32)j1)'
    AK = [('k0', 'm0'), ('k1', 'm1')]; BK = [('j0', 'p0'), ('j1', 'p1')]
    inAk = lambda x: '(' + ' || '.join('(%d < n1 && %s == %s)' % (i, k, x) for i, (k, m) in enumerate(AK)) + ')'
    inBk = lambda x: '(' + ' || '.join('(%d < n2 && %s == %s)' % (i, k, x) for i, (k, m) in enumerate(BK)) + ')'
    hasKV = lambda k, m: '(' + ' || '.join('(%d < *on && o[%d] == %s && o[%d] == %s)' % (i, 2 * i, k, 2 * i + 1, m) for i in range(4)) + ')'
    jens = ['*on <= 4 && ' + ' && '.join('VF_IMP(%d < *on, (i32)o[%d] < (i32)o[%d])' % (i + 1, 2 * i, 2 * i + 2) for i in range(3))]
    jens += ['VF_IMP(%d < n1, %s)' % (i, hasKV(k, m)) for i, (k, m) in enumerate(AK)]
    jens += ['VF_IMP(%d < n2 && !%s, %s)' % (i, inAk(k), hasKV(k, m)) for i, (k, m) in enumerate(BK)]
    jens += ['VF_IMP(%d < *on, %s || %s)' % (i, inAk('o[%d]' % (2 * i)), inBk('o[%d]' % (2 * i))) for i in range(4)]
    for nm in ('vf_join_maps_lr', 'vf_join_maps_rr'):
        Q[nm] = ([J1, Z, FRM], G + ', ' + OUTS, jens, 'container::join on associative containers: the second map is inserted into the first - every entry of the first map keeps its value, entries of the second are added only under new keys (whatever the sizes and value categories)')
    qspec = ''
    for f, (req, asg, ens, what) in Q.items():
        qspec += 'function %s\n' % f + ''.join('  __CPROVER_requires(%s)\n' % r for r in req) + '  __CPROVER_assigns(%s)\n' % asg + ''.join('  __CPROVER_ensures(%s)\n' % e for e in ens)
    P.generated['assoc.spec'] = qspec
    uq = P.unit('assoc', 'assoc.cpp', specs=['assoc.spec'], harness=['harness.c'], pre=['ghost.h'], inline=True)
    for f, (req, asg, ens, what) in Q.items():
        uq.contract(f, cls='W', unwind=9, bound='harness containers of capacity 4 (map, sequence) / 6 (set) with symbolic size <= 3 (+ 3): loops bounded by the capacity, unwinding assertions on', backends=['sat', 'cvc5'], what=what, native=False, timeout=900)
    return P
