// C16 shim: the generic fcppt.algorithm functions instantiated on a fixed-capacity container with SYMBOLIC size (no
// heap): every loop is bounded by the capacity. Predicates / functions are harness hooks (uninterpreted + call log).
#include <fcppt/algorithm/fold.hpp>
#include <fcppt/algorithm/fold_break.hpp>
#include <fcppt/algorithm/all_of.hpp>
#include <fcppt/algorithm/contains.hpp>
#include <fcppt/algorithm/contains_if.hpp>
#include <fcppt/algorithm/find_opt.hpp>
#include <fcppt/algorithm/find_if_opt.hpp>
#include <fcppt/algorithm/index_of.hpp>
#include <fcppt/algorithm/loop.hpp>
#include <fcppt/algorithm/loop_break.hpp>
#include <fcppt/algorithm/remove.hpp>
#include <fcppt/algorithm/remove_if.hpp>
#include <fcppt/algorithm/unique.hpp>
#include <fcppt/algorithm/reverse.hpp>
#include <fcppt/algorithm/map.hpp>
#include <fcppt/algorithm/map_optional.hpp>
#include <fcppt/algorithm/repeat.hpp>
#include <fcppt/algorithm/binary_search.hpp>
#include <fcppt/algorithm/equal_range.hpp>
#include <fcppt/algorithm/find_by_opt.hpp>
#include <fcppt/algorithm/generate_n.hpp>
#include <fcppt/algorithm/unique_if.hpp>
#include <fcppt/algorithm/map_concat.hpp>
#include <fcppt/container/at_optional.hpp>
#include <fcppt/loop.hpp>
#include <fcppt/optional/object.hpp>
#include <cstddef>
#include <utility>
struct fixvec {
  using value_type = int; using size_type = std::size_t; using difference_type = std::ptrdiff_t; using reference = int &; using const_reference = int const &;
  using iterator = int *; using const_iterator = int const *; using pointer = int *; using const_pointer = int const *;
  int d[4]; std::size_t n;
  fixvec() : d{0, 0, 0, 0}, n(0) {}
  fixvec(int a0, int a1, int a2, std::size_t n_) : d{a0, a1, a2, 0}, n(n_) {}
  iterator begin() { return d; } iterator end() { return d + n; } const_iterator begin() const { return d; } const_iterator end() const { return d + n; }
  size_type size() const { return n; } bool empty() const { return n == 0; }
  iterator erase(const_iterator f, const_iterator l) { std::size_t const i = static_cast<std::size_t>(f - d), j = static_cast<std::size_t>(l - d); for (std::size_t k = j; k < n; ++k) d[i + (k - j)] = d[k]; n -= (j - i); return d + i; }
  iterator insert(const_iterator pos, int v) { std::size_t const i = static_cast<std::size_t>(pos - d); for (std::size_t k = n; k > i; --k) d[k] = d[k - 1]; d[i] = v; ++n; return d + i; }
  void push_back(int v) { d[n++] = v; } void reserve(size_type) {}
  template <typename It> iterator insert(const_iterator, It first, It last) { std::size_t const at = n; for (; first != last; ++first) { d[n++] = *first; } return d + at; }   // only ever called with end()
};
extern "C" {
unsigned vf_f2(unsigned elem, unsigned state);     // fold function
bool vf_pred(unsigned elem);                       // predicate
unsigned vf_map(unsigned elem);                    // map function
void vf_visit(unsigned elem);                      // loop body
void vf_tick(void);                                // repeat body
}
#define SRC int a0, int a1, int a2, std::size_t n
#define MK fixvec c{a0, a1, a2, n}
static void put(fixvec const &v, std::size_t *on, int *o){ *on = v.size(); for (std::size_t i = 0; i < 4 && i < v.size(); ++i) o[i] = v.d[i]; }
extern "C" {
unsigned vf_fold(SRC, unsigned init){ MK; return fcppt::algorithm::fold(c, init, [](int e, unsigned s){ return vf_f2(static_cast<unsigned>(e), s); }); }
unsigned vf_fold_break(SRC, unsigned init){ MK; return fcppt::algorithm::fold_break(c, init, [](int e, unsigned s){ bool const stop = vf_pred(static_cast<unsigned>(e)); return std::make_pair(stop ? fcppt::loop::break_ : fcppt::loop::continue_, vf_f2(static_cast<unsigned>(e), s)); }); }
bool vf_all_of(SRC){ MK; return fcppt::algorithm::all_of(c, [](int e){ return vf_pred(static_cast<unsigned>(e)); }); }
bool vf_contains(SRC, int x){ MK; return fcppt::algorithm::contains(c, x); }
bool vf_contains_if(SRC){ MK; return fcppt::algorithm::contains_if(c, [](int e){ return vf_pred(static_cast<unsigned>(e)); }); }
long vf_find_opt(SRC, int x){ MK; auto const r = fcppt::algorithm::find_opt(c, x); return r.has_value() ? r.get_unsafe() - c.begin() : -1; }
long vf_find_if_opt(SRC){ MK; auto const r = fcppt::algorithm::find_if_opt(c, [](int e){ return vf_pred(static_cast<unsigned>(e)); }); return r.has_value() ? r.get_unsafe() - c.begin() : -1; }
long vf_index_of(SRC, int x){ MK; auto const r = fcppt::algorithm::index_of(c, x); return r.has_value() ? static_cast<long>(r.get_unsafe()) : -1; }
void vf_loop(SRC){ MK; fcppt::algorithm::loop(c, [](int e){ vf_visit(static_cast<unsigned>(e)); }); }
void vf_loop_break(SRC){ MK; fcppt::algorithm::loop_break(c, [](int e){ vf_visit(static_cast<unsigned>(e)); return vf_pred(static_cast<unsigned>(e)) ? fcppt::loop::break_ : fcppt::loop::continue_; }); }
bool vf_remove(SRC, int x, std::size_t *on, int *o){ MK; bool const r = fcppt::algorithm::remove(c, x); put(c, on, o); return r; }
bool vf_remove_alias(SRC, std::size_t k, std::size_t *on, int *o){ MK; bool const r = fcppt::algorithm::remove(c, c.d[k]); put(c, on, o); return r; }   // the value aliases an element of the container
bool vf_remove_if(SRC, std::size_t *on, int *o){ MK; bool const r = fcppt::algorithm::remove_if(c, [](int e){ return vf_pred(static_cast<unsigned>(e)); }); put(c, on, o); return r; }
void vf_unique(SRC, std::size_t *on, int *o){ MK; fcppt::algorithm::unique(c); put(c, on, o); }
void vf_reverse(SRC, std::size_t *on, int *o){ MK; fixvec const r{fcppt::algorithm::reverse(c)}; put(r, on, o); }
void vf_map_c(SRC, std::size_t *on, int *o){ MK; fixvec const r{fcppt::algorithm::map<fixvec>(c, [](int e){ return static_cast<int>(vf_map(static_cast<unsigned>(e))); })}; put(r, on, o); }
void vf_map_optional(SRC, std::size_t *on, int *o){ MK; fixvec const r{fcppt::algorithm::map_optional<fixvec>(c, [](int e){ return vf_pred(static_cast<unsigned>(e)) ? fcppt::optional::object<int>{static_cast<int>(vf_map(static_cast<unsigned>(e)))} : fcppt::optional::object<int>{}; })}; put(r, on, o); }
void vf_repeat(unsigned cnt){ fcppt::algorithm::repeat(cnt, []{ vf_tick(); }); }
long vf_binary_search(SRC, int x){ MK; auto const r = fcppt::algorithm::binary_search(c, x); return r.has_value() ? r.get_unsafe() - c.begin() : -1; }
void vf_equal_range(SRC, int x, long *lo, long *hi){ MK; auto const r = fcppt::algorithm::equal_range(c, x); *lo = r.begin() - c.begin(); *hi = r.end() - c.begin(); }
bool vf_find_by_opt(SRC, int *val){ MK; auto const r = fcppt::algorithm::find_by_opt(c, [](int e){ return vf_pred(static_cast<unsigned>(e)) ? fcppt::optional::object<int>{static_cast<int>(vf_map(static_cast<unsigned>(e)))} : fcppt::optional::object<int>{}; }); if (r.has_value()) *val = r.get_unsafe(); return r.has_value(); }
void vf_generate_n(std::size_t cnt, std::size_t *on, int *o){ fixvec const r{fcppt::algorithm::generate_n<fixvec>(cnt, []{ return static_cast<int>(vf_map(7U)); })}; put(r, on, o); }
void vf_unique_if(SRC, std::size_t *on, int *o){ MK; fcppt::algorithm::unique_if(c, [](int a, int b){ return (vf_f2(static_cast<unsigned>(a), static_cast<unsigned>(b)) & 1U) != 0U; }); put(c, on, o); }
long vf_at_optional(SRC, std::size_t idx){ MK; auto const r = fcppt::container::at_optional(c, idx); return r.has_value() ? &r.get_unsafe().get() - c.begin() : -1; }
void vf_map_concat_c(SRC, std::size_t *on, int *o){ MK; fixvec const r{fcppt::algorithm::map_concat<fixvec>(c, [](int e){ fixvec one; if (vf_pred(static_cast<unsigned>(e))) one.push_back(static_cast<int>(vf_map(static_cast<unsigned>(e)))); return one; })}; put(r, on, o); }
}
