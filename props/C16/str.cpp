// C16 shim (strings): join_strings / split_string are templates over the string type; they are instantiated with a
// fixed-capacity string (no heap) so that every loop is bounded. split_string returns a real std::vector of them.
#include <fcppt/algorithm/join_strings.hpp>
#include <fcppt/algorithm/split_string.hpp>
#include <cstddef>
#include <vector>
template <std::size_t N> struct fixstr_t {
  using value_type = char; using size_type = std::size_t; using const_iterator = char const *; using iterator = char *; using difference_type = std::ptrdiff_t; using reference = char &; using const_reference = char const &;
  char d[N]; std::size_t n;
  fixstr_t() : d{}, n(0) {}
  fixstr_t(char const *f, char const *l) : d{}, n(0) { for (; f != l; ++f) d[n++] = *f; }
  fixstr_t &operator+=(fixstr_t const &o) { for (std::size_t i = 0; i < o.n; ++i) d[n++] = o.d[i]; return *this; }
  bool empty() const { return n == 0; } size_type size() const { return n; }
  const_iterator begin() const { return d; } const_iterator end() const { return d + n; }
};
using fixstr = fixstr_t<12>; using fixstr4 = fixstr_t<4>;   // capacity 4 for the split_string jobs (strings of at most 3 characters)
struct strrange { using value_type = fixstr; using const_iterator = fixstr const *; using iterator = fixstr const *; fixstr d[3]; std::size_t n; const_iterator begin() const { return d; } const_iterator end() const { return d + n; } };
static fixstr mk(std::size_t l, char c0, char c1){ char const b[2] = {c0, c1}; return fixstr{b, b + l}; }
template <std::size_t N> static void put(fixstr_t<N> const &s, std::size_t *on, char *o){ *on = s.n; for (std::size_t i = 0; i < N && i < s.n; ++i) o[i] = s.d[i]; }
extern "C" {
void vf_join_strings(std::size_t n, std::size_t l0, char p00, char p01, std::size_t l1, char p10, char p11, std::size_t l2, char p20, char p21, std::size_t ld, char d0, char d1, std::size_t *on, char *o){
  strrange r{{mk(l0, p00, p01), mk(l1, p10, p11), mk(l2, p20, p21)}, n}; put(fcppt::algorithm::join_strings(r, mk(ld, d0, d1)), on, o); }
void vf_split_string(std::size_t n, char c0, char c1, char c2, char delim, std::size_t *cnt, std::size_t *lens, char *o){
  char const b[3] = {c0, c1, c2}; std::vector<fixstr4> const v{fcppt::algorithm::split_string(fixstr4{b, b + n}, delim)};
  *cnt = v.size(); for (std::size_t i = 0; i < 4 && i < v.size(); ++i) { lens[i] = v[i].n; for (std::size_t j = 0; j < 3 && j < v[i].n; ++j) o[i * 3 + j] = v[i].d[j]; } }
void vf_split_join(std::size_t n, char c0, char c1, char c2, char delim, std::size_t *on, char *o){
  char const b[3] = {c0, c1, c2}; char const dl[1] = {delim}; put(fcppt::algorithm::join_strings(fcppt::algorithm::split_string(fixstr4{b, b + n}, delim), fixstr4{dl, dl + 1}), on, o); }
}
