// C04 shim: instantiates the real optional / either / variant combinators over unsigned/int payloads.
// Continuations are the extern "C" hooks vf_* below; they are DEFINED IN THE HARNESS as wrappers of
// uninterpreted functions that bump ghost call counters, so every proof holds for every continuation.
#include <fcppt/optional/object.hpp>
#include <fcppt/optional/make.hpp>
#include <fcppt/optional/map.hpp>
#include <fcppt/optional/bind.hpp>
#include <fcppt/optional/join.hpp>
#include <fcppt/optional/apply.hpp>
#include <fcppt/optional/filter.hpp>
#include <fcppt/optional/alternative.hpp>
#include <fcppt/optional/combine.hpp>
#include <fcppt/optional/from.hpp>
#include <fcppt/optional/maybe.hpp>
#include <fcppt/optional/maybe_void.hpp>
#include <fcppt/optional/maybe_multi.hpp>
#include <fcppt/optional/make_if.hpp>
#include <fcppt/either/object.hpp>
#include <fcppt/either/match.hpp>
#include <fcppt/either/map.hpp>
#include <fcppt/either/bind.hpp>
#include <fcppt/either/join.hpp>
#include <fcppt/either/apply.hpp>
#include <fcppt/either/map_failure.hpp>
#include <fcppt/either/from_optional.hpp>
#include <fcppt/either/success_opt.hpp>
#include <fcppt/either/failure_opt.hpp>
#include <fcppt/either/first_success.hpp>
#include <fcppt/either/loop.hpp>
#include <fcppt/variant/object.hpp>
#include <fcppt/variant/match.hpp>
#include <fcppt/variant/to_optional.hpp>
#include <fcppt/variant/holds_type.hpp>
#include <array>
#include <vector>
using U = unsigned;
using opt = fcppt::optional::object<U>;
using oopt = fcppt::optional::object<opt>;
using eit = fcppt::either::object<int, U>;          // failure int, success unsigned
using eeit = fcppt::either::object<int, eit>;
using var = fcppt::variant::object<int, U>;
extern "C" {
U vf_f(U);            // unary continuation
U vf_g(U);
U vf_f2(U, U);        // binary continuation
bool vf_p(U);         // predicate
U vf_d(void);         // default / producer
int vf_dfail(void);   // failure producer
bool vf_kh(U); U vf_kv(U);        // K : U -> optional<U>
bool vf_lh(U); U vf_lv(U);        // L : U -> optional<U>
bool vf_ks(U); int vf_kf(U);      // KE : U -> either<int,U>  (success value via vf_kv)
bool vf_ls(U); int vf_lf(U);      // LE : U -> either<int,U>  (success value via vf_lv)
int vf_mf(int);                   // failure mapper
U vf_v0(int);                     // variant visitor for alternative 0 (int)
U vf_v1(U);                       // variant visitor for alternative 1 (unsigned)
void vf_sink(U);                  // void continuation
bool vf_fs_s(U); int vf_fs_f(U); U vf_fs_v(U);   // i-th function of first_success / successive results of loop's next
}
static inline opt mko(bool h, U v){ return h ? opt{v} : opt{}; }
static inline eit mke(bool s, int f, U v){ return s ? eit{v} : eit{f}; }
static inline var mkv(bool second, int a, U b){ return second ? var{b} : var{a}; }
static inline void puto(opt const &o, bool *oh, U *ov){ *oh = o.has_value(); if (o.has_value()) *ov = o.get_unsafe(); }
static inline void pute(eit const &e, bool *os, int *of, U *ov){ *os = e.has_success(); if (e.has_success()) *ov = e.get_success_unsafe(); else *of = e.get_failure_unsafe(); }
static inline opt K(U x){ return vf_kh(x) ? opt{vf_kv(x)} : opt{}; }
static inline opt L(U x){ return vf_lh(x) ? opt{vf_lv(x)} : opt{}; }
static inline eit KE(U x){ return vf_ks(x) ? eit{vf_kv(x)} : eit{vf_kf(x)}; }
static inline eit LE(U x){ return vf_ls(x) ? eit{vf_lv(x)} : eit{vf_lf(x)}; }
namespace o = fcppt::optional;
namespace e = fcppt::either;
extern "C" {
// ---------------- optional
void vf_opt_map(bool h, U v, bool *oh, U *ov){ puto(o::map(mko(h, v), [](U x){ return vf_f(x); }), oh, ov); }
void vf_opt_map_id(bool h, U v, bool *oh, U *ov){ puto(o::map(mko(h, v), [](U x){ return x; }), oh, ov); }
void vf_opt_map_map(bool h, U v, bool *oh, U *ov){ puto(o::map(o::map(mko(h, v), [](U x){ return vf_f(x); }), [](U x){ return vf_g(x); }), oh, ov); }
void vf_opt_map_comp(bool h, U v, bool *oh, U *ov){ puto(o::map(mko(h, v), [](U x){ return vf_g(vf_f(x)); }), oh, ov); }
void vf_opt_bind(bool h, U v, bool *oh, U *ov){ puto(o::bind(mko(h, v), [](U x){ return K(x); }), oh, ov); }
void vf_opt_bind_make(bool h, U v, bool *oh, U *ov){ puto(o::bind(mko(h, v), [](U x){ return o::make(x); }), oh, ov); }
void vf_opt_make_bind(U v, bool *oh, U *ov){ puto(o::bind(o::make(v), [](U x){ return K(x); }), oh, ov); }
void vf_opt_bind_bind(bool h, U v, bool *oh, U *ov){ puto(o::bind(o::bind(mko(h, v), [](U x){ return K(x); }), [](U x){ return L(x); }), oh, ov); }
void vf_opt_bind_nested(bool h, U v, bool *oh, U *ov){ puto(o::bind(mko(h, v), [](U x){ return o::bind(K(x), [](U y){ return L(y); }); }), oh, ov); }
void vf_opt_join(bool h1, bool h2, U v, bool *oh, U *ov){ puto(o::join(h1 ? oopt{mko(h2, v)} : oopt{}), oh, ov); }
void vf_opt_join_bind_id(bool h1, bool h2, U v, bool *oh, U *ov){ puto(o::bind(h1 ? oopt{mko(h2, v)} : oopt{}, [](opt x){ return x; }), oh, ov); }
void vf_opt_apply(bool h1, U v1, bool h2, U v2, bool *oh, U *ov){ puto(o::apply([](U x, U y){ return vf_f2(x, y); }, mko(h1, v1), mko(h2, v2)), oh, ov); }
void vf_opt_filter(bool h, U v, bool *oh, U *ov){ puto(o::filter(mko(h, v), [](U x){ return vf_p(x); }), oh, ov); }
void vf_opt_alternative(bool h, U v, bool hd, bool *oh, U *ov){ puto(o::alternative(mko(h, v), [hd]{ return mko(hd, vf_d()); }), oh, ov); }
void vf_opt_combine(bool h1, U v1, bool h2, U v2, bool *oh, U *ov){ puto(o::combine(mko(h1, v1), mko(h2, v2), [](U x, U y){ return vf_f2(x, y); }), oh, ov); }
U vf_opt_from(bool h, U v){ return o::from(mko(h, v), []{ return vf_d(); }); }
U vf_opt_maybe(bool h, U v){ return o::maybe(mko(h, v), []{ return vf_d(); }, [](U x){ return vf_f(x); }); }
void vf_opt_maybe_void(bool h, U v){ o::maybe_void(mko(h, v), [](U x){ vf_sink(x); }); }
U vf_opt_maybe_multi(bool h1, U v1, bool h2, U v2){ return o::maybe_multi([]{ return vf_d(); }, [](U x, U y){ return vf_f2(x, y); }, mko(h1, v1), mko(h2, v2)); }
void vf_opt_make_if(bool b, bool *oh, U *ov){ puto(o::make_if(b, []{ return vf_d(); }), oh, ov); }
// ---------------- either
U vf_eit_match(bool s, int f, U v){ return e::match(mke(s, f, v), [](int x){ return vf_v0(x); }, [](U x){ return vf_v1(x); }); }
void vf_eit_map(bool s, int f, U v, bool *os, int *of, U *ov){ pute(e::map(mke(s, f, v), [](U x){ return vf_f(x); }), os, of, ov); }
void vf_eit_map_id(bool s, int f, U v, bool *os, int *of, U *ov){ pute(e::map(mke(s, f, v), [](U x){ return x; }), os, of, ov); }
void vf_eit_bind(bool s, int f, U v, bool *os, int *of, U *ov){ pute(e::bind(mke(s, f, v), [](U x){ return KE(x); }), os, of, ov); }
void vf_eit_bind_make(bool s, int f, U v, bool *os, int *of, U *ov){ pute(e::bind(mke(s, f, v), [](U x){ return eit{x}; }), os, of, ov); }
void vf_eit_make_bind(U v, bool *os, int *of, U *ov){ pute(e::bind(eit{v}, [](U x){ return KE(x); }), os, of, ov); }
void vf_eit_bind_bind(bool s, int f, U v, bool *os, int *of, U *ov){ pute(e::bind(e::bind(mke(s, f, v), [](U x){ return KE(x); }), [](U x){ return LE(x); }), os, of, ov); }
void vf_eit_bind_nested(bool s, int f, U v, bool *os, int *of, U *ov){ pute(e::bind(mke(s, f, v), [](U x){ return e::bind(KE(x), [](U y){ return LE(y); }); }), os, of, ov); }
void vf_eit_join(bool s1, int f1, bool s2, int f2, U v, bool *os, int *of, U *ov){ pute(e::join(s1 ? eeit{mke(s2, f2, v)} : eeit{f1}), os, of, ov); }
void vf_eit_apply(bool s1, int f1, U v1, bool s2, int f2, U v2, bool *os, int *of, U *ov){ pute(e::apply([](U x, U y){ return vf_f2(x, y); }, mke(s1, f1, v1), mke(s2, f2, v2)), os, of, ov); }
void vf_eit_map_failure(bool s, int f, U v, bool *os, int *of, U *ov){ pute(e::map_failure(mke(s, f, v), [](int x){ return vf_mf(x); }), os, of, ov); }
void vf_eit_from_optional(bool h, U v, bool *os, int *of, U *ov){ pute(e::from_optional(mko(h, v), []{ return vf_dfail(); }), os, of, ov); }
void vf_eit_success_opt(bool s, int f, U v, bool *oh, U *ov){ puto(e::success_opt(mke(s, f, v)), oh, ov); }
void vf_eit_failure_opt(bool s, int f, U v, bool *oh, int *of){ auto const r = e::failure_opt(mke(s, f, v)); *oh = r.has_value(); if (r.has_value()) *of = r.get_unsafe(); }
// first_success over n <= 3 functions; the i-th function returns the either described by the hooks at index i
struct fsfun { U i; eit operator()() const { return vf_fs_s(i) ? eit{vf_fs_v(i)} : eit{vf_fs_f(i)}; } };
void vf_eit_first_success3(bool *os, U *ov, U *nfail, int *fails){
  std::array<fsfun, 3> const fs{fsfun{0}, fsfun{1}, fsfun{2}};
  auto const r = e::first_success(fs);
  *os = r.has_success();
  if (r.has_success()) { *ov = r.get_success_unsafe(); *nfail = 0; }
  else { auto const &v = r.get_failure_unsafe(); *nfail = static_cast<U>(v.size()); for (U k = 0; k < 3 && k < v.size(); ++k) fails[k] = v[k]; }
}
void vf_eit_first_success2(bool *os, U *ov, U *nfail, int *fails){
  std::array<fsfun, 2> const fs{fsfun{0}, fsfun{1}};
  auto const r = e::first_success(fs);
  *os = r.has_success();
  if (r.has_success()) { *ov = r.get_success_unsafe(); *nfail = 0; }
  else { auto const &v = r.get_failure_unsafe(); *nfail = static_cast<U>(v.size()); for (U k = 0; k < 2 && k < v.size(); ++k) fails[k] = v[k]; }
}
// loop: next() yields the successive eithers 0,1,2,...; loop body receives the successes
U vf_loop_ctr; /* extern "C" global: named in the contract frame */
int vf_eit_loop(void){ vf_loop_ctr = 0; return e::loop([]{ U const i = vf_loop_ctr++; return vf_fs_s(i) ? eit{vf_fs_v(i)} : eit{vf_fs_f(i)}; }, [](U x){ vf_sink(x); }); }
// ---------------- variant
U vf_var_match(bool second, int a, U b){ return fcppt::variant::match(mkv(second, a, b), [](int x){ return vf_v0(x); }, [](U x){ return vf_v1(x); }); }
void vf_var_to_optional_u(bool second, int a, U b, bool *oh, U *ov){ puto(fcppt::variant::to_optional<U>(mkv(second, a, b)), oh, ov); }
void vf_var_to_optional_i(bool second, int a, U b, bool *oh, int *ov){ auto const r = fcppt::variant::to_optional<int>(mkv(second, a, b)); *oh = r.has_value(); if (r.has_value()) *ov = r.get_unsafe(); }
bool vf_var_holds_u(bool second, int a, U b){ return fcppt::variant::holds_type<U>(mkv(second, a, b)); }
bool vf_var_holds_i(bool second, int a, U b){ return fcppt::variant::holds_type<int>(mkv(second, a, b)); }
}
