// C04 shim (sequence / cat): optional::cat, optional::sequence and either::sequence are templates over the source and
// result container; they are instantiated on fixed-capacity containers with symbolic size (no heap).
#include <fcppt/optional/object.hpp>
#include <fcppt/optional/cat.hpp>
#include <fcppt/optional/sequence.hpp>
#include <fcppt/either/object.hpp>
#include <fcppt/either/sequence.hpp>
#include <fcppt/strong_typedef.hpp>
#include <cstddef>
template <typename T> struct fixc {
  using value_type = T; using size_type = std::size_t; using difference_type = std::ptrdiff_t; using reference = T &; using const_reference = T const &;
  using iterator = T *; using const_iterator = T const *; using pointer = T *; using const_pointer = T const *;
  T d[4]; std::size_t n;
  fixc() : d{}, n(0) {}
  iterator begin() { return d; } iterator end() { return d + n; } const_iterator begin() const { return d; } const_iterator end() const { return d + n; }
  size_type size() const { return n; } bool empty() const { return n == 0; } void reserve(size_type) {}
  iterator insert(const_iterator, T const &v) { d[n] = v; return d + n++; }   // only ever called with end()
  void push_back(T const &v) { d[n++] = v; }
};
struct fail_t { int v; };   // failure type distinct from the success type
using opt = fcppt::optional::object<int>; using eit = fcppt::either::object<fail_t, int>;
using ivec = fixc<int>; using ovec = fixc<opt>;
struct evec { // either has no default constructor: explicit storage
  using value_type = eit; using size_type = std::size_t; using difference_type = std::ptrdiff_t; using reference = eit &; using const_reference = eit const &;
  using iterator = eit *; using const_iterator = eit const *;
  eit d[3]; std::size_t n;
  iterator begin() { return d; } iterator end() { return d + n; } const_iterator begin() const { return d; } const_iterator end() const { return d + n; } size_type size() const { return n; }
};
static void put(ivec const &v, std::size_t *on, int *o){ *on = v.n; for (std::size_t i = 0; i < 4 && i < v.n; ++i) o[i] = v.d[i]; }
#define SRC std::size_t n, bool h0, int a0, bool h1, int a1, bool h2, int a2
static ovec mko(SRC){ ovec c; c.push_back(h0 ? opt{a0} : opt{}); c.push_back(h1 ? opt{a1} : opt{}); c.push_back(h2 ? opt{a2} : opt{}); c.n = n; return c; }
static eit mke(bool s, int v){ return s ? eit{v} : eit{fail_t{v}}; }
extern "C" {
void vf_opt_cat(SRC, std::size_t *on, int *o){ ovec const c{mko(n, h0, a0, h1, a1, h2, a2)}; put(fcppt::optional::cat<ivec>(c), on, o); }
bool vf_opt_sequence(SRC, std::size_t *on, int *o){ ovec const c{mko(n, h0, a0, h1, a1, h2, a2)}; fcppt::optional::object<ivec> const r{fcppt::optional::sequence<ivec>(c)}; if (r.has_value()) put(r.get_unsafe(), on, o); return r.has_value(); }
bool vf_eit_sequence(SRC, std::size_t *on, int *o, int *fail){ evec const c{{mke(h0, a0), mke(h1, a1), mke(h2, a2)}, n}; fcppt::either::object<fail_t, ivec> const r{fcppt::either::sequence<ivec>(c)};
  if (r.has_success()) put(r.get_success_unsafe(), on, o); else *fail = r.get_failure_unsafe().v; return r.has_success(); }
}
