"""C04 - optional / either / variant combinators satisfy their algebraic specification.

Continuations are hooks defined in the harness as wrappers of uninterpreted functions with ghost call counters and
last-argument records; every contract therefore holds for EVERY continuation, and "invoked exactly once with the held
value / never for an absent value" is part of the postcondition and of the frame (assigns) of each contract.
"""
from vf.plan import Plan

UF1 = ['f', 'g', 'kv', 'lv', 'v1', 'fs_v']          # u32 -> u32
UFB = ['p', 'kh', 'lh', 'ks', 'ls', 'fs_s']          # u32 -> bool
UFI = ['kf', 'lf', 'fs_f']                           # u32 -> int
HOOKS = '''
/* ---- continuations: uninterpreted functions + ghost instrumentation (C04) ---- */
%(defs)s
u32 vf_f2(u32 x, u32 y){ ++c_f2; l_f2a = x; l_f2b = y; return __CPROVER_uninterpreted_f2(x, y); }
u32 vf_d(void){ ++c_d; return __CPROVER_uninterpreted_d(0); }
u32 vf_dfail(void){ ++c_dfail; return __CPROVER_uninterpreted_dfail(0); }
u32 vf_mf(u32 x){ ++c_mf; l_mf = x; return __CPROVER_uninterpreted_mf(x); }
u32 vf_v0(u32 x){ ++c_v0; l_v0 = x; return __CPROVER_uninterpreted_v0(x); }
void vf_sink(u32 x){ ++c_sink; l_sink = x; }
'''


def hooks():
    decls, defs = [], []
    for n in UF1:
        decls.append('u32 __CPROVER_uninterpreted_%s(u32);' % n)
        defs.append('u32 vf_%s(u32 x){ ++c_%s; l_%s = x; return __CPROVER_uninterpreted_%s(x); }' % (n, n, n, n))
    for n in UFB:
        decls.append('u8 __CPROVER_uninterpreted_%s(u32);' % n)
        defs.append('_Bool vf_%s(u32 x){ ++c_%s; l_%s = x; return __CPROVER_uninterpreted_%s(x) & 1; }' % (n, n, n, n))
    for n in UFI:
        decls.append('u32 __CPROVER_uninterpreted_%s(u32);' % n)
        defs.append('u32 vf_%s(u32 x){ ++c_%s; l_%s = x; return __CPROVER_uninterpreted_%s(x); }' % (n, n, n, n))
    decls += ['u32 __CPROVER_uninterpreted_f2(u32, u32);', 'u32 __CPROVER_uninterpreted_d(u32);', 'u32 __CPROVER_uninterpreted_dfail(u32);', 'u32 __CPROVER_uninterpreted_mf(u32);', 'u32 __CPROVER_uninterpreted_v0(u32);']
    return HOOKS % dict(defs='\n'.join(defs)), '\n'.join(decls) + '\n'


def U(n, *a):
    e = '__CPROVER_uninterpreted_%s(%s)' % (n, ', '.join(a))
    return '(%s & 1)' % e if n in UFB else e


def once(n, cond, arg=None):
    """hook n was called exactly once iff cond (never otherwise), with argument arg"""
    s = 'c_%s == __CPROVER_old(c_%s) + ((%s) ? 1 : 0)' % (n, n, cond)
    if arg is not None:
        s += ' && VF_IMP(%s, l_%s == %s)' % (cond, n, arg)
    return s


B = lambda *names: ['%s == 0 || %s == 1' % (n, n) for n in names]
FO = ['__CPROVER_is_fresh(oh, 1)', '__CPROVER_is_fresh(ov, 4)']
FE = ['__CPROVER_is_fresh(os, 1)', '__CPROVER_is_fresh(of, 4)', '__CPROVER_is_fresh(ov, 4)']


def G(*names):
    r = []
    for n in names:
        r += ['c_' + n] + (['l_' + n] if n not in ('d', 'dfail', 'f2') else [])
        if n == 'f2':
            r += ['l_f2a', 'l_f2b']
    return r


KH, KV, LH, LV = (lambda x: U('kh', x)), (lambda x: U('kv', x)), (lambda x: U('lh', x)), (lambda x: U('lv', x))
KS, KF, LS, LF = (lambda x: U('ks', x)), (lambda x: U('kf', x)), (lambda x: U('ls', x)), (lambda x: U('lf', x))
S = lambda i: U('fs_s', str(i))
V = lambda i: U('fs_v', str(i))
FL = lambda i: U('fs_f', str(i))
FIRST = '(%s ? 0 : (%s ? 1 : 2))' % (S(0), S(1))
C = {}   # name -> (requires, assigns, ensures, what)
C['vf_opt_map'] = (B('h') + FO, ['*oh', '*ov'] + G('f'), ['*oh == h', 'VF_IMP(h, *ov == %s)' % U('f', 'v'), once('f', 'h', 'v')], 'optional::map: maps the held value through f, invoking f exactly once with it, never for an empty optional')
C['vf_opt_map_id'] = (B('h') + FO, ['*oh', '*ov'], ['*oh == h', 'VF_IMP(h, *ov == v)'], 'functor identity: map(o, id) == o')
C['vf_opt_map_map'] = (B('h') + FO, ['*oh', '*ov'] + G('f', 'g'), ['*oh == h', 'VF_IMP(h, *ov == %s)' % U('g', U('f', 'v')), once('f', 'h', 'v'), once('g', 'h', U('f', 'v'))], 'functor composition (1): map(map(o, f), g) == g(f(v))')
C['vf_opt_map_comp'] = (B('h') + FO, ['*oh', '*ov'] + G('f', 'g'), ['*oh == h', 'VF_IMP(h, *ov == %s)' % U('g', U('f', 'v'))], 'functor composition (2): map(o, g . f) has the same result')
C['vf_opt_bind'] = (B('h') + FO, ['*oh', '*ov'] + G('kh', 'kv'), ['*oh == (h && %s)' % KH('v'), 'VF_IMP(*oh, *ov == %s)' % KV('v'), once('kh', 'h', 'v')], 'optional::bind: K invoked exactly once with the held value, never for an empty optional; result is K(v)')
C['vf_opt_bind_make'] = (B('h') + FO, ['*oh', '*ov'], ['*oh == h', 'VF_IMP(h, *ov == v)'], 'monad right identity: bind(o, make) == o')
C['vf_opt_make_bind'] = (FO, ['*oh', '*ov'] + G('kh', 'kv'), ['*oh == %s' % KH('v'), 'VF_IMP(*oh, *ov == %s)' % KV('v')], 'monad left identity: bind(make(x), K) == K(x)')
assoc = ['*oh == (h && %s && %s)' % (KH('v'), LH(KV('v'))), 'VF_IMP(*oh, *ov == %s)' % LV(KV('v'))]
C['vf_opt_bind_bind'] = (B('h') + FO, ['*oh', '*ov'] + G('kh', 'kv', 'lh', 'lv'), assoc, 'monad associativity (1): bind(bind(o, K), L)')
C['vf_opt_bind_nested'] = (B('h') + FO, ['*oh', '*ov'] + G('kh', 'kv', 'lh', 'lv'), assoc, 'monad associativity (2): bind(o, x -> bind(K(x), L)) has the same result')
C['vf_opt_join'] = (B('h1', 'h2') + FO, ['*oh', '*ov'], ['*oh == (h1 && h2)', 'VF_IMP(*oh, *ov == v)'], 'optional::join flattens: some(some(v)) -> some(v), otherwise empty')
C['vf_opt_join_bind_id'] = (B('h1', 'h2') + FO, ['*oh', '*ov'], ['*oh == (h1 && h2)', 'VF_IMP(*oh, *ov == v)'], 'join == bind id')
C['vf_opt_apply'] = (B('h1', 'h2') + FO, ['*oh', '*ov'] + G('f2'), ['*oh == (h1 && h2)', 'VF_IMP(*oh, *ov == %s)' % U('f2', 'v1', 'v2'), 'c_f2 == __CPROVER_old(c_f2) + ((h1 && h2) ? 1 : 0)', 'VF_IMP(h1 && h2, l_f2a == v1 && l_f2b == v2)'], 'optional::apply: f(v1, v2) iff both are set, f invoked once, never otherwise')
C['vf_opt_filter'] = (B('h') + FO, ['*oh', '*ov'] + G('p'), ['*oh == (h && %s)' % U('p', 'v'), 'VF_IMP(*oh, *ov == v)', once('p', 'h', 'v')], 'optional::filter keeps the value iff the predicate holds; predicate never evaluated for an empty optional')
C['vf_opt_alternative'] = (B('h', 'hd') + FO, ['*oh', '*ov'] + G('d'), ['*oh == (h || hd)', 'VF_IMP(h, *ov == v)', 'VF_IMP(!h && hd, *ov == %s)' % U('d', '0'), 'c_d == __CPROVER_old(c_d) + (h ? 0 : 1)'], 'optional::alternative: the first optional if set, otherwise the result of the second; the second is not evaluated when the first is set')
C['vf_opt_combine'] = (B('h1', 'h2') + FO, ['*oh', '*ov'] + G('f2'), ['*oh == (h1 || h2)', 'VF_IMP(h1 && h2, *ov == %s)' % U('f2', 'v1', 'v2'), 'VF_IMP(h1 && !h2, *ov == v1)', 'VF_IMP(!h1 && h2, *ov == v2)',
                                                                    'c_f2 == __CPROVER_old(c_f2) + ((h1 && h2) ? 1 : 0)', 'VF_IMP(h1 && h2, l_f2a == v1 && l_f2b == v2)'], 'optional::combine: f(x1, x2) (in this argument order) if both are set, the one that is set, or nothing')
C['vf_opt_from'] = (B('h'), G('d'), ['__CPROVER_return_value == (h ? v : %s)' % U('d', '0'), 'c_d == __CPROVER_old(c_d) + (h ? 0 : 1)'], 'optional::from: the value, or the default (evaluated only for an empty optional)')
C['vf_opt_maybe'] = (B('h'), G('d', 'f'), ['__CPROVER_return_value == (h ? %s : %s)' % (U('f', 'v'), U('d', '0')), 'c_d == __CPROVER_old(c_d) + (h ? 0 : 1)', once('f', 'h', 'v')], 'optional::maybe selects exactly one of the two continuations, exactly once')
C['vf_opt_maybe_void'] = (B('h'), G('sink'), [once('sink', 'h', 'v')], 'optional::maybe_void invokes the function exactly once with the value, never for an empty optional')
C['vf_opt_maybe_multi'] = (B('h1', 'h2'), G('d', 'f2'), ['__CPROVER_return_value == ((h1 && h2) ? %s : %s)' % (U('f2', 'v1', 'v2'), U('d', '0')), 'c_f2 == __CPROVER_old(c_f2) + ((h1 && h2) ? 1 : 0)', 'c_d == __CPROVER_old(c_d) + ((h1 && h2) ? 0 : 1)'], 'optional::maybe_multi: transform iff all are set, else default')
C['vf_opt_make_if'] = (B('b') + FO, ['*oh', '*ov'] + G('d'), ['*oh == b', 'VF_IMP(b, *ov == %s)' % U('d', '0'), 'c_d == __CPROVER_old(c_d) + (b ? 1 : 0)'], 'optional::make_if: some(f()) iff the condition holds; f not evaluated otherwise')
# either
C['vf_eit_match'] = (B('s'), G('v0', 'v1'), ['__CPROVER_return_value == (s ? %s : %s)' % (U('v1', 'v'), U('v0', 'f')), once('v1', 's', 'v'), once('v0', '!s', 'f')], 'either::match invokes exactly the continuation of the held alternative, exactly once')
C['vf_eit_map'] = (B('s') + FE, ['*os', '*of', '*ov'] + G('f'), ['*os == s', 'VF_IMP(s, *ov == %s)' % U('f', 'v'), 'VF_IMP(!s, *of == f)', once('f', 's', 'v')], 'either::map maps a success (once), passes a failure through untouched')
C['vf_eit_map_id'] = (B('s') + FE, ['*os', '*of', '*ov'], ['*os == s', 'VF_IMP(s, *ov == v)', 'VF_IMP(!s, *of == f)'], 'functor identity for either')
C['vf_eit_bind'] = (B('s') + FE, ['*os', '*of', '*ov'] + G('ks', 'kv', 'kf'), ['*os == (s && %s)' % KS('v'), 'VF_IMP(*os, *ov == %s)' % KV('v'), 'VF_IMP(!s, *of == f)', 'VF_IMP(s && !%s, *of == %s)' % (KS('v'), KF('v')), once('ks', 's', 'v')], 'either::bind: K invoked once for a success, never for a failure; failures propagate')
C['vf_eit_bind_make'] = (B('s') + FE, ['*os', '*of', '*ov'], ['*os == s', 'VF_IMP(s, *ov == v)', 'VF_IMP(!s, *of == f)'], 'monad right identity for either')
C['vf_eit_make_bind'] = (FE, ['*os', '*of', '*ov'] + G('ks', 'kv', 'kf'), ['*os == %s' % KS('v'), 'VF_IMP(*os, *ov == %s)' % KV('v'), 'VF_IMP(!*os, *of == %s)' % KF('v')], 'monad left identity for either')
eassoc = ['*os == (s && %s && %s)' % (KS('v'), LS(KV('v'))), 'VF_IMP(*os, *ov == %s)' % LV(KV('v')), 'VF_IMP(!s, *of == f)', 'VF_IMP(s && !%s, *of == %s)' % (KS('v'), KF('v')),
          'VF_IMP(s && %s && !%s, *of == %s)' % (KS('v'), LS(KV('v')), LF(KV('v')))]
C['vf_eit_bind_bind'] = (B('s') + FE, ['*os', '*of', '*ov'] + G('ks', 'kv', 'kf', 'ls', 'lv', 'lf'), eassoc, 'monad associativity for either (1)')
C['vf_eit_bind_nested'] = (B('s') + FE, ['*os', '*of', '*ov'] + G('ks', 'kv', 'kf', 'ls', 'lv', 'lf'), eassoc, 'monad associativity for either (2)')
C['vf_eit_join'] = (B('s1', 's2') + FE, ['*os', '*of', '*ov'], ['*os == (s1 && s2)', 'VF_IMP(*os, *ov == v)', 'VF_IMP(!s1, *of == f1)', 'VF_IMP(s1 && !s2, *of == f2)'], 'either::join flattens; the outer failure wins')
C['vf_eit_apply'] = (B('s1', 's2') + FE, ['*os', '*of', '*ov'] + G('f2'), ['*os == (s1 && s2)', 'VF_IMP(*os, *ov == %s)' % U('f2', 'v1', 'v2'), 'VF_IMP(!s1, *of == f1)', 'VF_IMP(s1 && !s2, *of == f2)', 'c_f2 == __CPROVER_old(c_f2) + ((s1 && s2) ? 1 : 0)', 'VF_IMP(s1 && s2, l_f2a == v1 && l_f2b == v2)'], 'either::apply: f on all successes (once), otherwise the first failure')
C['vf_eit_map_failure'] = (B('s') + FE, ['*os', '*of', '*ov'] + G('mf'), ['*os == s', 'VF_IMP(s, *ov == v)', 'VF_IMP(!s, *of == %s)' % U('mf', 'f'), once('mf', '!s', 'f')], 'either::map_failure maps a failure (once), passes a success through')
C['vf_eit_from_optional'] = (B('h') + FE, ['*os', '*of', '*ov'] + G('dfail'), ['*os == h', 'VF_IMP(h, *ov == v)', 'VF_IMP(!h, *of == %s)' % U('dfail', '0'), 'c_dfail == __CPROVER_old(c_dfail) + (h ? 0 : 1)'], 'either::from_optional: success for a set optional, otherwise the produced failure (producer evaluated only then)')
C['vf_eit_success_opt'] = (B('s') + FO, ['*oh', '*ov'], ['*oh == s', 'VF_IMP(s, *ov == v)'], 'either::success_opt')
C['vf_eit_failure_opt'] = (B('s') + ['__CPROVER_is_fresh(oh, 1)', '__CPROVER_is_fresh(of, 4)'], ['*oh', '*of'], ['*oh == !s', 'VF_IMP(!s, *of == f)'], 'either::failure_opt')
C['vf_eit_first_success3'] = (['__CPROVER_is_fresh(os, 1)', '__CPROVER_is_fresh(ov, 4)', '__CPROVER_is_fresh(nfail, 4)', '__CPROVER_is_fresh(fails, 12)'],
                              ['*os', '*ov', '*nfail', '__CPROVER_object_whole(fails)'] + G('fs_s', 'fs_v', 'fs_f'),
                              ['*os == (%s || %s || %s)' % (S(0), S(1), S(2)),
                               'VF_IMP(*os, *ov == (%s ? %s : (%s ? %s : %s)))' % (S(0), V(0), S(1), V(1), V(2)),
                               'c_fs_s == __CPROVER_old(c_fs_s) + (%s ? 1 : (%s ? 2 : 3))' % (S(0), S(1)),
                               'VF_IMP(!*os, *nfail == 3 && fails[0] == %s && fails[1] == %s && fails[2] == %s)' % (FL(0), FL(1), FL(2))],
                              'either::first_success: the success with the smallest index, functions after it are never invoked; all failures in order if none succeeds')
C['vf_eit_first_success2'] = (['__CPROVER_is_fresh(os, 1)', '__CPROVER_is_fresh(ov, 4)', '__CPROVER_is_fresh(nfail, 4)', '__CPROVER_is_fresh(fails, 8)'],
                              ['*os', '*ov', '*nfail', '__CPROVER_object_whole(fails)'] + G('fs_s', 'fs_v', 'fs_f'),
                              ['*os == (%s || %s)' % (S(0), S(1)), 'VF_IMP(*os, *ov == (%s ? %s : %s))' % (S(0), V(0), V(1)), 'c_fs_s == __CPROVER_old(c_fs_s) + (%s ? 1 : 2)' % S(0),
                               'VF_IMP(!*os, *nfail == 2 && fails[0] == %s && fails[1] == %s)' % (FL(0), FL(1))],
                              'either::first_success (2 functions): the success with the smallest index, the function after it is never invoked; all failures in order if none succeeds')
C['vf_eit_loop'] = (['!%s || !%s || !%s' % (S(0), S(1), S(2))], G('fs_s', 'fs_v', 'fs_f', 'sink') + ['vf_loop_ctr'],
                    ['__CPROVER_return_value == (!%s ? %s : (!%s ? %s : %s))' % (S(0), FL(0), S(1), FL(1), FL(2)),
                     'c_fs_s == __CPROVER_old(c_fs_s) + (!%s ? 1 : (!%s ? 2 : 3))' % (S(0), S(1)),
                     'c_sink == __CPROVER_old(c_sink) + (!%s ? 0 : (!%s ? 1 : 2))' % (S(0), S(1)),
                     'VF_IMP(c_sink == __CPROVER_old(c_sink) + 1, l_sink == %s)' % V(0), 'VF_IMP(c_sink == __CPROVER_old(c_sink) + 2, l_sink == %s)' % V(1)],
                    'either::loop: runs the body on every success in order and returns the first failure (first failure within 3 steps)')
C['vf_var_match'] = (B('second'), G('v0', 'v1'), ['__CPROVER_return_value == (second ? %s : %s)' % (U('v1', 'b'), U('v0', 'a')), once('v1', 'second', 'b'), once('v0', '!second', 'a')], 'variant::match invokes exactly the function of the held alternative, exactly once')
C['vf_var_to_optional_u'] = (B('second') + FO, ['*oh', '*ov'], ['*oh == second', 'VF_IMP(second, *ov == b)'], 'variant::to_optional<T> has a value exactly when T is held')
C['vf_var_to_optional_i'] = (B('second') + FO, ['*oh', '*ov'], ['*oh == !second', 'VF_IMP(!second, *ov == a)'], 'variant::to_optional<T> has a value exactly when T is held')
C['vf_var_holds_u'] = (B('second'), [], ['__CPROVER_return_value == second'], 'variant::holds_type')
C['vf_var_holds_i'] = (B('second'), [], ['__CPROVER_return_value == !second'], 'variant::holds_type')


def make(tier):
    P = Plan('C04', level='proof', design_ref='DESIGN.md section 5 C04')
    P.not_decided += ['either::try_call (depends on catching an exception: unwinding is dropped by the extraction)', 'optional::cat / optional::sequence / either::sequence over std::vector sources (heap containers; they are checked on fixed-capacity containers)',
                      'variant::apply with more than two variants']
    P.meta += ['payload types are unsigned/int over their full 32-bit domain and continuations are uninterpreted: by parametricity of the templates the results carry over to all value types and all functions']
    spec = ''
    for f, (req, asg, ens, what) in C.items():
        spec += 'function %s\n' % f
        for r in req:
            spec += '  __CPROVER_requires(%s)\n' % r
        spec += '  __CPROVER_assigns(%s)\n' % ', '.join(asg)
        for e in ens:
            spec += '  __CPROVER_ensures(%s)\n' % e
    P.generated['c04.spec'] = spec
    hk, decls = hooks()
    P.generated['c04_h.c'] = hk
    names = UF1 + UFB + UFI + ['mf', 'v0', 'sink']
    P.generated['c04_ghost.h'] = '/* uninterpreted continuations, ghost call counters / last arguments of the continuation hooks */\n' + decls + ''.join('static unsigned c_%s; static u32 l_%s;\n' % (n, n) for n in names) + 'static unsigned c_f2; static u32 l_f2a, l_f2b; static unsigned c_d, c_dfail;\n'
    u = P.unit('c04', 'shim.cpp', specs=['c04.spec'], harness=['c04_h.c'], pre=['c04_ghost.h'], inline=True, maxb=16)
    for f, (req, asg, ens, what) in C.items():
        kw = {}
        if f in ('vf_eit_first_success3', 'vf_eit_first_success2', 'vf_eit_loop'):
            kw = dict(cls='B', unwind=18, tier='thorough' if f == 'vf_eit_first_success3' else 'quick', bound='3 functions / first failure within 3 steps (std::vector of failures grows by push_back)', timeout=1800)
        else:
            kw = dict(cls='P', timeout=600)
        u.contract(f, backends=['sat', 'cvc5'], what=what, native=False, **kw)
    # ---- optional::cat / optional::sequence / either::sequence on fixed-capacity containers (seq.cpp) ----
    import itertools
    H = ['h0', 'h1', 'h2']; AV = ['a0', 'a1', 'a2']
    def filtered(keep, val):
        cl = []
        for m in itertools.product((0, 1), repeat=3):
            cond = ' && '.join(('(%d < n && %s)' % (k, keep(k))) if m[k] else ('!(%d < n && %s)' % (k, keep(k))) for k in range(3))
            kept = [k for k in range(3) if m[k]]
            cl.append('VF_IMP(%s, %s)' % (cond, ' && '.join(['*on == %d' % len(kept)] + ['o[%d] == %s' % (j, val(k)) for j, k in enumerate(kept)])))
        return cl
    BO = 'n <= 3 && (h0 == 0 || h0 == 1) && (h1 == 0 || h1 == 1) && (h2 == 0 || h2 == 1)'
    FRS = '__CPROVER_is_fresh(on, 8) && __CPROVER_is_fresh(o, 16)'
    allh = '(' + ' && '.join('(!(%d < n) || %s)' % (k, H[k]) for k in range(3)) + ')'
    firstfail = '(!(0 < n && !h0) ? (!(1 < n && !h1) ? a2 : a1) : a0)'
    S = {}
    S['vf_opt_cat'] = ([BO, FRS], '*on, __CPROVER_object_whole(o)', filtered(lambda k: H[k], lambda k: AV[k]), 'optional::cat: exactly the values of the set optionals, in order')
    S['vf_opt_sequence'] = ([BO, FRS], '*on, __CPROVER_object_whole(o)', ['__CPROVER_return_value == %s' % allh, 'VF_IMP(%s, *on == n && %s)' % (allh, ' && '.join('VF_IMP(%d < n, o[%d] == a%d)' % (k, k, k) for k in range(3)))],
                            'optional::sequence: a value exactly when every optional is set, then all values in order')
    S['vf_eit_sequence'] = ([BO, FRS + ' && __CPROVER_is_fresh(fail, 4)'], '*on, __CPROVER_object_whole(o), *fail', ['__CPROVER_return_value == %s' % allh, 'VF_IMP(%s, *on == n && %s)' % (allh, ' && '.join('VF_IMP(%d < n, o[%d] == a%d)' % (k, k, k) for k in range(3))),
                                                                                                    'VF_IMP(!%s, *fail == %s)' % (allh, firstfail)], 'either::sequence (lvalue source): all successes in order, or the FIRST failure')
    sspec = ''
    for f, (req, asg, ens, what) in S.items():
        sspec += 'function %s\n' % f + ''.join('  __CPROVER_requires(%s)\n' % r for r in req) + '  __CPROVER_assigns(%s)\n' % asg + ''.join('  __CPROVER_ensures(%s)\n' % e for e in ens)
    P.generated['c04s.spec'] = sspec
    us = P.unit('seq', 'seq.cpp', specs=['c04s.spec'], inline=True)
    for f, (req, asg, ens, what) in S.items():
        us.contract(f, cls='W', unwind=6, backends=['sat', 'cvc5'], what=what, timeout=600, bound='fixed-capacity source and result containers with symbolic size <= 3: loops bounded by the capacity, unwinding assertions on')
    # ---- variant::apply with two variants, variant::compare (var2.cpp)
    P.generated['var2_ghost.h'] = 'u32 __CPROVER_uninterpreted_ap(u32, u32, u32);\nu8 __CPROVER_uninterpreted_cmp(u32, u32, u32);\nstatic unsigned c_ap, c_cmp; static u32 l_kind;\n'
    P.generated['var2_h.c'] = ('u32 vf_ap(u32 k, u32 x, u32 y){ ++c_ap; l_kind = k; return __CPROVER_uninterpreted_ap(k, x, y); }\n'
                               '_Bool vf_cmp(u32 k, u32 x, u32 y){ ++c_cmp; l_kind = k; return __CPROVER_uninterpreted_cmp(k, x, y) & 1; }\n')
    BB = '(s1 == 0 || s1 == 1) && (s2 == 0 || s2 == 1)'
    X1 = '(s1 ? b1 : a1)'; X2 = '(s2 ? b2 : a2)'; KIND = '(2 * s1 + s2)'
    vspec = ('function vf_var_apply2\n  __CPROVER_requires(%s)\n  __CPROVER_assigns(c_ap, c_cmp, l_kind)\n' % BB +
             '  __CPROVER_ensures(__CPROVER_return_value == __CPROVER_uninterpreted_ap(%s, %s, %s) && c_ap == __CPROVER_old(c_ap) + 1 && l_kind == %s)\n' % (KIND, X1, X2, KIND) +
             'function vf_var_compare\n  __CPROVER_requires(%s)\n  __CPROVER_assigns(c_ap, c_cmp, l_kind)\n' % BB +
             '  __CPROVER_ensures(__CPROVER_return_value == (s1 == s2 && (__CPROVER_uninterpreted_cmp(3 * s1, %s, %s) & 1)))\n' % (X1, X2) +
             '  __CPROVER_ensures(c_cmp == __CPROVER_old(c_cmp) + (s1 == s2 ? 1 : 0) && VF_IMP(s1 == s2, l_kind == 3 * s1))\n')
    P.generated['var2.spec'] = vspec
    uv = P.unit('var2', 'var2.cpp', specs=['var2.spec'], harness=['var2_h.c'], pre=['var2_ghost.h'], inline=True)
    uv.contract('vf_var_apply2', cls='P', backends=['sat', 'cvc5'], native=False, timeout=600, what='variant::apply with two variants: the function is invoked exactly once, with the overload and the values of the two held alternatives')
    uv.contract('vf_var_compare', cls='P', backends=['sat', 'cvc5'], native=False, timeout=600, what='variant::compare: false for different alternatives (the comparison is not invoked), otherwise the comparison of the two held values')
    return P
