// C04 shim (variant::apply with two variants, variant::compare); own translation unit (std::visit dispatch tables).
#include <fcppt/variant/object.hpp>
#include <fcppt/variant/apply.hpp>
#include <fcppt/variant/compare.hpp>
using U = unsigned;
using var = fcppt::variant::object<int, U>;
extern "C" { U vf_ap(U kind, U x, U y); bool vf_cmp(U kind, U x, U y); }
static var mkv(bool second, int a, U b){ return second ? var{b} : var{a}; }
struct ap_fn {
  U operator()(int x, int y) const { return vf_ap(0U, static_cast<U>(x), static_cast<U>(y)); }
  U operator()(int x, U y) const { return vf_ap(1U, static_cast<U>(x), y); }
  U operator()(U x, int y) const { return vf_ap(2U, x, static_cast<U>(y)); }
  U operator()(U x, U y) const { return vf_ap(3U, x, y); }
};
struct cmp_fn {
  bool operator()(int x, int y) const { return vf_cmp(0U, static_cast<U>(x), static_cast<U>(y)); }
  bool operator()(U x, U y) const { return vf_cmp(3U, x, y); }
  template <typename A, typename B> bool operator()(A const &, B const &) const { return vf_cmp(9U, 0U, 0U); }   // never selected by compare: only equal alternatives are compared
};
extern "C" {
U vf_var_apply2(bool s1, int a1, U b1, bool s2, int a2, U b2){ return fcppt::variant::apply(ap_fn{}, mkv(s1, a1, b1), mkv(s2, a2, b2)); }
bool vf_var_compare(bool s1, int a1, U b1, bool s2, int a2, U b2){ var const l{mkv(s1, a1, b1)}; var const r{mkv(s2, a2, b2)}; return fcppt::variant::compare(l, r, cmp_fn{}); }
}
