"""C10 - bitfield is observationally a set of enumerators.

view(b) = { e < N | bit (e mod W) of word (e div W) is set }   (spec macro GET, independent of the code)
wf(b)   = the unused (padding) bits of the last word are zero
Every operation is put under a contract over the whole view (finite conjunction over all N enumerators) plus wf.
"""
from vf.plan import Plan

WORDS = [('u8', 'std::uint8_t', 8), ('u16', 'std::uint16_t', 16), ('u32', 'std::uint32_t', 32), ('u64', 'std::uint64_t', 64)]
SIZES = [1, 3, 8, 9, 17]


def make(tier):
    P = Plan('C10', level='proof', design_ref='DESIGN.md section 5 C10')
    P.meta.append('every bitfield reachable through the public set-level API (null, initializer list, init, set, |,&,^,~ and assigning forms) is wf by induction over its construction history, since each constructor establishes wf and each operation preserves it (machine-checked steps); hence equal sets compare and hash equal however computed')
    P.not_decided.append('stream output (operator<<, iostream formatting); bitfields built from a raw array through object(array_type const&) / array() with dirty padding are outside the set-level API')
    for N in SIZES:
        for (wn, wt, bits) in WORDS:
            if tier == 'quick' and (N, wn) not in QUICK:
                continue
            make_inst(P, N, wn, wt, bits)
    return P


# quick tier: every enum size and every word type at least twice, all multi-word layouts; thorough: all 20
QUICK = {(1, 'u8'), (3, 'u16'), (3, 'u32'), (8, 'u8'), (8, 'u64'), (9, 'u8'), (9, 'u16'), (9, 'u32'), (9, 'u64'), (17, 'u8'), (17, 'u16'), (17, 'u32')}


def make_inst(P, N, wn, wt, bits):
    K = (N + bits - 1) // bits
    tag = 'e%d_%s' % (N, wn)
    enum = 'enum class E { ' + ', '.join('v%d' % i for i in range(N)) + ', fcppt_maximum = v%d };' % (N - 1)
    A = ', '.join('W a%d' % i for i in range(K))      # bitfield a as K scalar words
    B = ', '.join('W b%d' % i for i in range(K))
    LA = 'load(' + ', '.join('a%d' % i for i in range(K)) + ')'
    LB = 'load(' + ', '.join('b%d' % i for i in range(K)) + ')'
    shim = '''#include <cstdint>
#include <cstddef>
#include <fcppt/container/bitfield/object.hpp>
#include <fcppt/container/bitfield/operators.hpp>
#include <fcppt/container/bitfield/comparison.hpp>
#include <fcppt/container/bitfield/is_subset_eq.hpp>
#include <fcppt/container/bitfield/init.hpp>
#include <fcppt/container/bitfield/hash.hpp>
%(enum)s
using W = %(wt)s;
using BF = fcppt::container::bitfield::object<E, W>;
static_assert(BF::array_size::value == %(K)d);
static inline BF load(%(PA)s){ W const p[%(K)d] = { %(PL)s }; BF b{BF::null()}; for (unsigned i = 0; i < %(K)d; ++i) b.array().get_unsafe(i) = p[i]; return b; }
static inline void store(BF const &b, W *p){ for (unsigned i = 0; i < %(K)d; ++i) p[i] = b.array().get_unsafe(i); }
#define X(n) n##_%(tag)s
extern "C" {
bool X(vf_get)(%(A)s, unsigned e){ BF const x{%(LA)s}; return x.get(static_cast<E>(e)); }
bool X(vf_index)(%(A)s, unsigned e){ BF const x{%(LA)s}; return x[static_cast<E>(e)]; }
bool X(vf_and_e)(%(A)s, unsigned e){ BF const x{%(LA)s}; return x & static_cast<E>(e); }
void X(vf_set)(%(A)s, unsigned e, bool v, W *out){ BF x{%(LA)s}; x.set(static_cast<E>(e), v); store(x, out); }
void X(vf_index_assign)(%(A)s, unsigned e, bool v, W *out){ BF x{%(LA)s}; x[static_cast<E>(e)] = v; store(x, out); }
void X(vf_or_e)(%(A)s, unsigned e, W *out){ BF x{%(LA)s}; store(x | static_cast<E>(e), out); }
void X(vf_or)(%(A)s, %(B)s, W *out){ BF const x{%(LA)s}, y{%(LB)s}; store(x | y, out); }
void X(vf_and)(%(A)s, %(B)s, W *out){ BF const x{%(LA)s}, y{%(LB)s}; store(x & y, out); }
void X(vf_xor)(%(A)s, %(B)s, W *out){ BF const x{%(LA)s}, y{%(LB)s}; store(x ^ y, out); }
void X(vf_or_assign)(%(A)s, %(B)s, W *out){ BF x{%(LA)s}; BF const y{%(LB)s}; x |= y; store(x, out); }
void X(vf_and_assign)(%(A)s, %(B)s, W *out){ BF x{%(LA)s}; BF const y{%(LB)s}; x &= y; store(x, out); }
void X(vf_xor_assign)(%(A)s, %(B)s, W *out){ BF x{%(LA)s}; BF const y{%(LB)s}; x ^= y; store(x, out); }
void X(vf_or_assign_self)(%(A)s, W *out){ BF x{%(LA)s}; x |= x; store(x, out); }
void X(vf_and_assign_self)(%(A)s, W *out){ BF x{%(LA)s}; x &= x; store(x, out); }
void X(vf_xor_assign_self)(%(A)s, W *out){ BF x{%(LA)s}; x ^= x; store(x, out); }
void X(vf_not)(%(A)s, W *out){ BF const x{%(LA)s}; store(~x, out); }
bool X(vf_eq)(%(A)s, %(B)s){ BF const x{%(LA)s}, y{%(LB)s}; return x == y; }
bool X(vf_ne)(%(A)s, %(B)s){ BF const x{%(LA)s}, y{%(LB)s}; return x != y; }
bool X(vf_subset)(%(A)s, %(B)s){ BF const x{%(LA)s}, y{%(LB)s}; return fcppt::container::bitfield::is_subset_eq(x, y); }
std::size_t X(vf_hash)(%(A)s){ BF const x{%(LA)s}; return fcppt::container::bitfield::hash<BF>{}(x); }
void X(vf_null)(W *out){ store(BF::null(), out); }
void X(vf_list0)(W *out){ store(BF{}, out); }
void X(vf_list1)(unsigned e0, W *out){ store(BF{static_cast<E>(e0)}, out); }
void X(vf_list2)(unsigned e0, unsigned e1, W *out){ store(BF{static_cast<E>(e0), static_cast<E>(e1)}, out); }
void X(vf_init)(unsigned char (*f)(unsigned), W *out){ store(fcppt::container::bitfield::init<BF>([f](E const e){ return f(static_cast<unsigned>(e)) != 0; }), out); }
}
''' % dict(enum=enum, wt=wt, K=K, tag=tag, A=A, B=B, LA=LA, LB=LB, PA=', '.join('W p%d' % i for i in range(K)), PL=', '.join('p%d' % i for i in range(K)))
    rem = N - (K - 1) * bits            # used bits in the last word
    U = 'u%d' % bits

    def word(p, i):
        return '%s[%d]' % (p, i) if p in ('out', 't1', 't2', 't3', 't4') else '%s%d' % (p, i)

    def GET(p, e):
        if isinstance(e, int):
            return '((%s >> %d) & 1)' % (word(p, e // bits), e % bits)
        sel = word(p, K - 1)
        for i in range(K - 2, -1, -1):
            sel = '((%s) / %d == %d ? %s : %s)' % (e, bits, i, word(p, i), sel)
        return '((%s >> ((%s) %% %d)) & 1)' % (sel, e, bits)

    def WF(p):
        return '1' if rem == bits else '((%s)(%s >> %d) == 0)' % (U, word(p, K - 1), rem)

    def ALL(f):
        return '(' + ' && '.join(f(e) for e in range(N)) + ')'
    FRO = '__CPROVER_is_fresh(out, %d)' % (K * bits // 8)
    spec = ''
    jobs = []

    def C(fn, req, ens, assigns, what, **kw):
        nonlocal spec
        f = '%s_%s' % (fn, tag)
        spec += 'function %s\n' % f
        for r in req:
            spec += '  __CPROVER_requires(%s)\n' % r
        spec += '  __CPROVER_assigns(%s)\n' % assigns
        for e in ens:
            spec += '  __CPROVER_ensures(%s)\n' % e
        jobs.append((f, what, kw))
    OUT = '__CPROVER_object_whole(out)'
    for fn in ('vf_get', 'vf_index', 'vf_and_e'):
        C(fn, ['e < %d' % N], ['__CPROVER_return_value == %s' % GET('a', 'e')], '',
          'get / operator[] / (field & e) read membership of e: bit (e mod W) of word (e div W)')
    for fn in ('vf_set', 'vf_index_assign'):
        C(fn, [FRO, 'e < %d' % N, WF('a'), 'v == 0 || v == 1'],
          [ALL(lambda k: '%s == (e == %d ? (%s)v : %s)' % (GET('out', k), k, U, GET('a', k))), WF('out')], OUT,
          'set(e, v) changes membership of e to v and of no other enumerator; padding stays clear')
    C('vf_or_e', [FRO, 'e < %d' % N, WF('a')],
      [ALL(lambda k: '%s == (e == %d ? 1 : %s)' % (GET('out', k), k, GET('a', k))), WF('out')], OUT, 'field | e == field united with {e}')
    for fn, op, txt in (('vf_or', '|', 'union'), ('vf_and', '&', 'intersection'), ('vf_xor', '^', 'symmetric difference')):
        for suf in ('', '_assign'):
            C(fn + suf, [FRO, WF('a'), WF('b')],
              [ALL(lambda k: '%s == (%s %s %s)' % (GET('out', k), GET('a', k), op, GET('b', k))), WF('out')], OUT,
              'operator%s%s is set %s; wf preserved' % (op, '=' if suf else '', txt))
    C('vf_or_assign_self', [FRO, WF('a')], [ALL(lambda k: '%s == %s' % (GET('out', k), GET('a', k))), WF('out')], OUT, 'a |= a (aliased operands) leaves a unchanged')
    C('vf_and_assign_self', [FRO, WF('a')], [ALL(lambda k: '%s == %s' % (GET('out', k), GET('a', k))), WF('out')], OUT, 'a &= a (aliased operands) leaves a unchanged')
    C('vf_xor_assign_self', [FRO, WF('a')], [ALL(lambda k: '%s == 0' % GET('out', k)), WF('out')], OUT, 'a ^= a (aliased operands) is the empty set')
    C('vf_not', [FRO, WF('a')], [ALL(lambda k: '%s == (1 ^ %s)' % (GET('out', k), GET('a', k))), WF('out')], OUT,
      'operator~ is the complement relative to the enum: membership flipped for every enumerator, padding stays clear (wf)')
    C('vf_eq', [WF('a'), WF('b')], ['__CPROVER_return_value == %s' % ALL(lambda k: '%s == %s' % (GET('a', k), GET('b', k)))], '', '== holds exactly for equal sets')
    C('vf_ne', [WF('a'), WF('b')], ['__CPROVER_return_value == !%s' % ALL(lambda k: '%s == %s' % (GET('a', k), GET('b', k)))], '', '!= is the negation of set equality')
    C('vf_subset', [WF('a'), WF('b')], ['__CPROVER_return_value == %s' % ALL(lambda k: '(!%s || %s)' % (GET('a', k), GET('b', k)))], '', 'is_subset_eq is the subset relation')
    for fn in ('vf_null', 'vf_list0'):
        C(fn, [FRO], [ALL(lambda k: '%s == 0' % GET('out', k)), WF('out')], OUT, 'null() / empty initializer list is the empty set (wf)')
    C('vf_list1', [FRO, 'e0 < %d' % N], [ALL(lambda k: '%s == (e0 == %d)' % (GET('out', k), k)), WF('out')], OUT, '{e0} from an initializer list')
    C('vf_list2', [FRO, 'e0 < %d' % N, 'e1 < %d' % N], [ALL(lambda k: '%s == (e0 == %d || e1 == %d)' % (GET('out', k), k, k)), WF('out')], OUT, '{e0, e1} from an initializer list')
    AA = ', '.join('a%d' % i for i in range(K))
    BB = ', '.join('b%d' % i for i in range(K))
    T = lambda t: ', '.join('%s[%d]' % (t, i) for i in range(K))
    harness = '''
/* C10 lemma harnesses for %(tag)s */
unsigned char __CPROVER_uninterpreted_member_%(tag)s(unsigned e);
static unsigned g_calls_%(tag)s;
u8 stub_member_%(tag)s(u32 e){ ++g_calls_%(tag)s; __CPROVER_assert(e < %(N)d, "init calls the function only for enumerators of the enum"); return __CPROVER_uninterpreted_member_%(tag)s(e) & 1; }
void h_init_%(tag)s(void){
  %(U)s out[%(K)d]; g_calls_%(tag)s = 0;
  vf_init_%(tag)s(stub_member_%(tag)s, out);
  __CPROVER_assert(%(initpost)s, "init<bitfield>(f) contains exactly the enumerators e with f(e)");
  __CPROVER_assert(%(wfout)s, "init establishes wf (padding clear)");
  __CPROVER_assert(g_calls_%(tag)s == %(N)d, "init calls f exactly once per enumerator");
  VF_PROBE();
}
void h_hash_%(tag)s(void){
  %(U)s %(AA)s, %(BB)s;
  __CPROVER_assume(%(wfa)s && %(wfb)s);
  __CPROVER_assume(%(seteq)s);
  u64 ha = vf_hash_%(tag)s(%(AA)s), hb = vf_hash_%(tag)s(%(BB)s);
  __CPROVER_assert(ha == hb, "bitfields holding the same enumerators hash equally");
  __CPROVER_assert(vf_eq_%(tag)s(%(AA)s, %(BB)s), "bitfields holding the same enumerators compare equal");
  VF_PROBE();
}
void h_demorgan_%(tag)s(void){
  /* composition through the real operators: ~(a | b) == ~a & ~b, (a ^ b) ^ b == a, ~~a == a, compared with the real operator== */
  %(U)s %(AA)s, %(BB)s, t1[%(K)d], t2[%(K)d], t3[%(K)d], t4[%(K)d];
  __CPROVER_assume(%(wfa)s && %(wfb)s);
  vf_or_%(tag)s(%(AA)s, %(BB)s, t1); vf_not_%(tag)s(%(T1)s, t2);
  vf_not_%(tag)s(%(AA)s, t3); vf_not_%(tag)s(%(BB)s, t4); vf_and_%(tag)s(%(T3)s, %(T4)s, t1);
  __CPROVER_assert(vf_eq_%(tag)s(%(T2)s, %(T1)s), "~(a | b) == (~a & ~b) under the real operator==");
  vf_xor_%(tag)s(%(AA)s, %(BB)s, t3); vf_xor_%(tag)s(%(T3)s, %(BB)s, t4);
  __CPROVER_assert(vf_eq_%(tag)s(%(T4)s, %(AA)s), "(a ^ b) ^ b == a under the real operator==");
  vf_not_%(tag)s(%(AA)s, t3); vf_not_%(tag)s(%(T3)s, t4);
  __CPROVER_assert(vf_eq_%(tag)s(%(T4)s, %(AA)s) && vf_hash_%(tag)s(%(T4)s) == vf_hash_%(tag)s(%(AA)s), "~~a == a and hashes equally");
  VF_PROBE();
}
''' % dict(tag=tag, N=N, K=K, U=U, AA=AA, BB=BB, T1=T('t1'), T2=T('t2'), T3=T('t3'), T4=T('t4'),
           initpost=ALL(lambda k: '%s == (%s)(__CPROVER_uninterpreted_member_%s(%d) & 1)' % (GET('out', k), U, tag, k)),
           wfout=WF('out'), wfa=WF('a'), wfb=WF('b'), seteq=ALL(lambda k: '%s == %s' % (GET('a', k), GET('b', k))))
    P.generated['bf_%s.cpp' % tag] = shim
    P.generated['bf_%s.spec' % tag] = spec
    P.generated['bf_%s_h.c' % tag] = harness
    u = P.unit(tag, 'bf_%s.cpp' % tag, specs=['bf_%s.spec' % tag], harness=['bf_%s_h.c' % tag], inline=True)
    for f, what, kw in jobs:
        u.contract(f, cls='P', backends=['sat', 'cvc5'], what=what, timeout=600, **kw)
    u.lemma('h_init_%s' % tag, cls='P', backends=['sat', 'cvc5'], native=False, timeout=600,
            what='init<bitfield>(f): view == { e | f(e) } for every (uninterpreted) f, f called once per enumerator, wf')
    u.lemma('h_hash_%s' % tag, cls='P', backends=['sat', 'cvc5'], native=False, timeout=600,
            what='equal sets (wf) hash equally and compare equal')
    u.lemma('h_demorgan_%s' % tag, cls='P', backends=['sat', 'cvc5'], native=False, timeout=900,
            what='composed expressions through the real operators agree under the real == and hash')
