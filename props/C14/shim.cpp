// C14 shim: real fcppt vector / dim / matrix templates over unsigned (the ring Z/2^32: no UB, every ring identity holds) and int
#include <fcppt/math/vector/static.hpp>
#include <fcppt/math/vector/arithmetic.hpp>
#include <fcppt/math/vector/dot.hpp>
#include <fcppt/math/vector/cross.hpp>
#include <fcppt/math/vector/length_square.hpp>
#include <fcppt/math/vector/null.hpp>
#include <fcppt/math/vector/fill.hpp>
#include <fcppt/math/vector/narrow_cast.hpp>
#include <fcppt/math/vector/push_back.hpp>
#include <fcppt/math/vector/structure_cast.hpp>
#include <fcppt/math/vector/to_dim.hpp>
#include <fcppt/math/vector/at.hpp>
#include <fcppt/math/dim/static.hpp>
#include <fcppt/math/dim/arithmetic.hpp>
#include <fcppt/math/dim/at.hpp>
#include <fcppt/math/dim/to_vector.hpp>
#include <fcppt/math/matrix/static.hpp>
#include <fcppt/math/matrix/arithmetic.hpp>
#include <fcppt/math/matrix/vector.hpp>
#include <fcppt/math/matrix/transpose.hpp>
#include <fcppt/math/matrix/identity.hpp>
#include <fcppt/math/matrix/determinant.hpp>
#include <fcppt/math/matrix/adjugate.hpp>
#include <fcppt/math/matrix/delete_row_and_column.hpp>
#include <fcppt/math/matrix/translation.hpp>
#include <fcppt/math/matrix/scaling.hpp>
#include <fcppt/math/matrix/row.hpp>
#include <fcppt/math/matrix/at_r_c.hpp>
#include <fcppt/math/matrix/at_r.hpp>
#include <fcppt/cast/size_fun.hpp>
#include <fcppt/cast/to_signed_fun.hpp>
using U = unsigned;
namespace m = fcppt::math;
using v2 = m::vector::static_<U, 2>; using v3 = m::vector::static_<U, 3>;
using d2 = m::dim::static_<U, 2>;
using m2 = m::matrix::static_<U, 2, 2>; using m3 = m::matrix::static_<U, 3, 3>;
static inline m2 mk2(U const *a){ return m2{m::matrix::row(a[0], a[1]), m::matrix::row(a[2], a[3])}; }
static inline m3 mk3(U const *a){ return m3{m::matrix::row(a[0], a[1], a[2]), m::matrix::row(a[3], a[4], a[5]), m::matrix::row(a[6], a[7], a[8])}; }
static inline void put2(m2 const &x, U *o){ o[0] = m::matrix::at_r_c<0, 0>(x); o[1] = m::matrix::at_r_c<0, 1>(x); o[2] = m::matrix::at_r_c<1, 0>(x); o[3] = m::matrix::at_r_c<1, 1>(x); }
static inline void put3(m3 const &x, U *o){ o[0] = m::matrix::at_r_c<0, 0>(x); o[1] = m::matrix::at_r_c<0, 1>(x); o[2] = m::matrix::at_r_c<0, 2>(x); o[3] = m::matrix::at_r_c<1, 0>(x); o[4] = m::matrix::at_r_c<1, 1>(x); o[5] = m::matrix::at_r_c<1, 2>(x); o[6] = m::matrix::at_r_c<2, 0>(x); o[7] = m::matrix::at_r_c<2, 1>(x); o[8] = m::matrix::at_r_c<2, 2>(x); }
#define A2 U a0, U a1, U a2, U a3
#define B2 U b0, U b1, U b2, U b3
#define A3 U a0, U a1, U a2, U a3, U a4, U a5, U a6, U a7, U a8
#define B3 U b0, U b1, U b2, U b3, U b4, U b5, U b6, U b7, U b8
#define LA2 U const a[4] = {a0, a1, a2, a3}
#define LB2 U const b[4] = {b0, b1, b2, b3}
#define LA3 U const a[9] = {a0, a1, a2, a3, a4, a5, a6, a7, a8}
#define LB3 U const b[9] = {b0, b1, b2, b3, b4, b5, b6, b7, b8}
extern "C" {
// vectors
void vf_v3_add(U x0, U x1, U x2, U y0, U y1, U y2, U *o){ auto const r = v3{x0, x1, x2} + v3{y0, y1, y2}; o[0] = r.x(); o[1] = r.y(); o[2] = r.z(); }
void vf_v3_sub(U x0, U x1, U x2, U y0, U y1, U y2, U *o){ auto const r = v3{x0, x1, x2} - v3{y0, y1, y2}; o[0] = r.x(); o[1] = r.y(); o[2] = r.z(); }
void vf_v3_mulc(U x0, U x1, U x2, U y0, U y1, U y2, U *o){ auto const r = v3{x0, x1, x2} * v3{y0, y1, y2}; o[0] = r.x(); o[1] = r.y(); o[2] = r.z(); }
void vf_v3_scal(U x0, U x1, U x2, U s, U *o){ auto const r = v3{x0, x1, x2} * s; o[0] = r.x(); o[1] = r.y(); o[2] = r.z(); }
void vf_v3_scal_l(U x0, U x1, U x2, U s, U *o){ auto const r = s * v3{x0, x1, x2}; o[0] = r.x(); o[1] = r.y(); o[2] = r.z(); }
void vf_v3_neg(U x0, U x1, U x2, U *o){ auto const r = -v3{x0, x1, x2}; o[0] = r.x(); o[1] = r.y(); o[2] = r.z(); }
void vf_v3_add_assign(U x0, U x1, U x2, U y0, U y1, U y2, U *o){ v3 r{x0, x1, x2}; r += v3{y0, y1, y2}; o[0] = r.x(); o[1] = r.y(); o[2] = r.z(); }
void vf_v3_scal_assign(U x0, U x1, U x2, U s, U *o){ v3 r{x0, x1, x2}; r *= s; o[0] = r.x(); o[1] = r.y(); o[2] = r.z(); }
void vf_v3_scal_assign_alias(U x0, U x1, U x2, U *o){ v3 r{x0, x1, x2}; r *= r.x(); o[0] = r.x(); o[1] = r.y(); o[2] = r.z(); }   // the scalar aliases a component of the vector being scaled
U vf_v3_dot(U x0, U x1, U x2, U y0, U y1, U y2){ return m::vector::dot(v3{x0, x1, x2}, v3{y0, y1, y2}); }
U vf_v3_length_square(U x0, U x1, U x2){ return m::vector::length_square(v3{x0, x1, x2}); }
void vf_v3_cross(U x0, U x1, U x2, U y0, U y1, U y2, U *o){ auto const r = m::vector::cross(v3{x0, x1, x2}, v3{y0, y1, y2}); o[0] = r.x(); o[1] = r.y(); o[2] = r.z(); }
void vf_v3_null_fill(U s, U *o){ auto const n = m::vector::null<v3>(); auto const f = m::vector::fill<v3>(s); o[0] = n.x(); o[1] = n.y(); o[2] = n.z(); o[3] = f.x(); o[4] = f.y(); o[5] = f.z(); }
void vf_v3_narrow_push(U x0, U x1, U x2, U w, U *o){ auto const n = m::vector::narrow_cast<v2>(v3{x0, x1, x2}); auto const p = m::vector::push_back(v2{x0, x1}, w); o[0] = n.x(); o[1] = n.y(); o[2] = p.x(); o[3] = p.y(); o[4] = p.z(); }
void vf_v2_structure_cast(U x0, U x1, int *o){ auto const r = m::vector::structure_cast<m::vector::static_<int, 2>, fcppt::cast::to_signed_fun>(v2{x0, x1}); o[0] = r.x(); o[1] = r.y(); }
void vf_d2_arith(U x0, U x1, U y0, U y1, U s, U *o){ auto const a = d2{x0, x1} + d2{y0, y1}; auto const b = d2{x0, x1} - d2{y0, y1}; auto const c = d2{x0, x1} * s; auto const e = d2{x0, x1} * d2{y0, y1};
  o[0] = a.w(); o[1] = a.h(); o[2] = b.w(); o[3] = b.h(); o[4] = c.w(); o[5] = c.h(); o[6] = e.w(); o[7] = e.h(); }
void vf_v2_dim_conv(U x0, U x1, U *o){ auto const d = m::vector::to_dim(v2{x0, x1}); auto const v = m::dim::to_vector(d2{x0, x1}); o[0] = d.w(); o[1] = d.h(); o[2] = v.x(); o[3] = v.y(); }
// matrices 2x2
void vf_m2_add(A2, B2, U *o){ LA2; LB2; put2(mk2(a) + mk2(b), o); }
void vf_m2_sub(A2, B2, U *o){ LA2; LB2; put2(mk2(a) - mk2(b), o); }
void vf_m2_scal(A2, U s, U *o){ LA2; put2(mk2(a) * s, o); }
void vf_m2_mul(A2, B2, U *o){ LA2; LB2; put2(mk2(a) * mk2(b), o); }
void vf_m2_vec(A2, U x0, U x1, U *o){ LA2; auto const r = mk2(a) * v2{x0, x1}; o[0] = r.x(); o[1] = r.y(); }
void vf_m2_transpose(A2, U *o){ LA2; put2(m::matrix::transpose(mk2(a)), o); }
void vf_m2_identity(U *o){ put2(m::matrix::identity<m2>(), o); }
U vf_m2_det(A2){ LA2; return m::matrix::determinant(mk2(a)); }
void vf_m2_adjugate(A2, U *o){ LA2; put2(m::matrix::adjugate(mk2(a)), o); }
// matrices 3x3
void vf_m3_add(A3, B3, U *o){ LA3; LB3; put3(mk3(a) + mk3(b), o); }
void vf_m3_mul(A3, B3, U *o){ LA3; LB3; put3(mk3(a) * mk3(b), o); }
void vf_m3_vec(A3, U x0, U x1, U x2, U *o){ LA3; auto const r = mk3(a) * v3{x0, x1, x2}; o[0] = r.x(); o[1] = r.y(); o[2] = r.z(); }
void vf_m3_transpose(A3, U *o){ LA3; put3(m::matrix::transpose(mk3(a)), o); }
void vf_m3_identity(U *o){ put3(m::matrix::identity<m3>(), o); }
U vf_m3_det(A3){ LA3; return m::matrix::determinant(mk3(a)); }
void vf_m3_adjugate(A3, U *o){ LA3; put3(m::matrix::adjugate(mk3(a)), o); }
void vf_m3_delete(A3, U *o){ LA3; put2(m::matrix::delete_row_and_column<1, 0>(mk3(a)), o); put2(m::matrix::delete_row_and_column<0, 2>(mk3(a)), o + 4); }
void vf_m3_row_at(A3, U *o){ LA3; auto const x = mk3(a); auto const r = m::matrix::at_r<1>(x); o[0] = m::vector::at<0>(r); o[1] = m::vector::at<1>(r); o[2] = m::vector::at<2>(r); }
void vf_m4_translation_scaling(U x, U y, U z, U *o){
  auto const t = m::matrix::translation(x, y, z); auto const s = m::matrix::scaling(v3{x, y, z});
  o[0] = m::matrix::at_r_c<0, 0>(t); o[1] = m::matrix::at_r_c<0, 1>(t); o[2] = m::matrix::at_r_c<0, 2>(t); o[3] = m::matrix::at_r_c<0, 3>(t);
  o[4] = m::matrix::at_r_c<1, 0>(t); o[5] = m::matrix::at_r_c<1, 1>(t); o[6] = m::matrix::at_r_c<1, 2>(t); o[7] = m::matrix::at_r_c<1, 3>(t);
  o[8] = m::matrix::at_r_c<2, 0>(t); o[9] = m::matrix::at_r_c<2, 1>(t); o[10] = m::matrix::at_r_c<2, 2>(t); o[11] = m::matrix::at_r_c<2, 3>(t);
  o[12] = m::matrix::at_r_c<3, 0>(t); o[13] = m::matrix::at_r_c<3, 1>(t); o[14] = m::matrix::at_r_c<3, 2>(t); o[15] = m::matrix::at_r_c<3, 3>(t);
  o[16] = m::matrix::at_r_c<0, 0>(s); o[17] = m::matrix::at_r_c<1, 1>(s); o[18] = m::matrix::at_r_c<2, 2>(s); o[19] = m::matrix::at_r_c<3, 3>(s); o[20] = m::matrix::at_r_c<0, 1>(s); o[21] = m::matrix::at_r_c<2, 3>(s); }
}
