"""C14 - vector, dim and matrix arithmetic obeys the exact ring and module laws (scalar ring Z/2^32: unsigned)."""
from vf.plan import Plan


def mat(p, n):
    return [['%s%d' % (p, r * n + c) for c in range(n)] for r in range(n)]


def mmul(A, B, n):
    return [['(' + ' + '.join('%s * %s' % (A[r][k], B[k][c]) for k in range(n)) + ')' for c in range(n)] for r in range(n)]


def det2(a, b, c, d):
    return '(%s * %s - %s * %s)' % (a, d, b, c)


def det3(M):
    return '(%s * %s - %s * %s + %s * %s)' % (M[0][0], det2(M[1][1], M[1][2], M[2][1], M[2][2]), M[1][0], det2(M[0][1], M[0][2], M[2][1], M[2][2]), M[2][0], det2(M[0][1], M[0][2], M[1][1], M[1][2]))


def minor(M, r, c):
    n = len(M)
    return [[M[i][j] for j in range(n) if j != c] for i in range(n) if i != r]


def adj(M):
    n = len(M)
    res = [[None] * n for _ in range(n)]
    for r in range(n):
        for c in range(n):
            mn = minor(M, c, r)
            d = mn[0][0] if n == 2 else det2(mn[0][0], mn[0][1], mn[1][0], mn[1][1])
            res[r][c] = d if (r + c) % 2 == 0 else '(0u - %s)' % d
    return res


def eqs(out, M, off=0):
    n = len(M)
    return ' && '.join('%s[%d] == (u32)(%s)' % (out, off + r * len(M[0]) + c, M[r][c]) for r in range(n) for c in range(len(M[0])))


def make(tier):
    P = Plan('C14', level='proof', design_ref='DESIGN.md section 5 C14')
    P.meta += ['the scalar type is unsigned (the commutative ring Z/2^32, no undefined behaviour); the templates are parametric in the scalar, so an index or sign error shows in this ring as well; every operation is proved equal to its entrywise definition, and the ring/module identities are proved on the real code for 2x2 (and 3x3 where the solver closes) with z3/cvc5']
    P.not_decided += ['floating-point functions (length, normalize, angle, rotation, exponential, logarithm, inverse over floats)', 'view storage (row_view) beyond at_r', '4x4 identities (4x4 product / transpose / determinant are under entrywise contracts)']
    fo = lambda n: '__CPROVER_is_fresh(o, %d)' % (4 * n)
    OW = '__CPROVER_object_whole(o)'
    C = {}
    X, Y = ['x0', 'x1', 'x2'], ['y0', 'y1', 'y2']
    vec = lambda es: ' && '.join('o[%d] == (u32)(%s)' % (i, e) for i, e in enumerate(es))
    C['vf_v3_add'] = ([fo(3)], vec(['%s + %s' % (x, y) for x, y in zip(X, Y)]), 'vector +: per component')
    C['vf_v3_sub'] = ([fo(3)], vec(['%s - %s' % (x, y) for x, y in zip(X, Y)]), 'vector -: per component')
    C['vf_v3_mulc'] = ([fo(3)], vec(['%s * %s' % (x, y) for x, y in zip(X, Y)]), 'vector component-wise *')
    C['vf_v3_scal'] = ([fo(3)], vec(['%s * s' % x for x in X]), 'vector * scalar')
    C['vf_v3_scal_l'] = ([fo(3)], vec(['s * %s' % x for x in X]), 'scalar * vector')
    C['vf_v3_neg'] = ([fo(3)], vec(['0u - %s' % x for x in X]), 'unary minus')
    C['vf_v3_add_assign'] = ([fo(3)], vec(['%s + %s' % (x, y) for x, y in zip(X, Y)]), 'vector +=')
    C['vf_v3_scal_assign'] = ([fo(3)], vec(['%s * s' % x for x in X]), 'vector *= scalar')
    C['vf_v3_scal_assign_alias'] = ([fo(3)], vec(['%s * x0' % x for x in X]), 'v *= v.x(): the scalar is read before the components are scaled (argument aliasing a component)')
    C['vf_v3_dot'] = ([], '__CPROVER_return_value == (u32)(x0 * y0 + x1 * y1 + x2 * y2)', 'dot product')
    C['vf_v3_length_square'] = ([], '__CPROVER_return_value == (u32)(x0 * x0 + x1 * x1 + x2 * x2)', 'length_square')
    C['vf_v3_cross'] = ([fo(3)], vec(['x1 * y2 - x2 * y1', 'x2 * y0 - x0 * y2', 'x0 * y1 - x1 * y0']), 'cross product')
    C['vf_v3_null_fill'] = ([fo(6)], vec(['0', '0', '0', 's', 's', 's']), 'null / fill')
    C['vf_v3_narrow_push'] = ([fo(5)], vec(['x0', 'x1', 'x0', 'x1', 'w']), 'narrow_cast drops the last component, push_back appends one')
    C['vf_v2_structure_cast'] = ([fo(2)], 'o[0] == x0 && o[1] == x1', 'structure_cast converts each component')
    C['vf_d2_arith'] = ([fo(8)], vec(['x0 + y0', 'x1 + y1', 'x0 - y0', 'x1 - y1', 'x0 * s', 'x1 * s', 'x0 * y0', 'x1 * y1']), 'dim + - scalar* component*')
    C['vf_v2_dim_conv'] = ([fo(4)], vec(['x0', 'x1', 'x0', 'x1']), 'to_dim / to_vector keep the components')
    A2, B2, A3, B3 = mat('a', 2), mat('b', 2), mat('a', 3), mat('b', 3)
    C['vf_m2_add'] = ([fo(4)], eqs('o', [['%s + %s' % (A2[r][c], B2[r][c]) for c in range(2)] for r in range(2)]), 'matrix +')
    C['vf_m2_sub'] = ([fo(4)], eqs('o', [['%s - %s' % (A2[r][c], B2[r][c]) for c in range(2)] for r in range(2)]), 'matrix -')
    C['vf_m2_scal'] = ([fo(4)], eqs('o', [['%s * s' % A2[r][c] for c in range(2)] for r in range(2)]), 'matrix * scalar')
    C['vf_m2_mul'] = ([fo(4)], eqs('o', mmul(A2, B2, 2)), 'matrix product: entry (i,j) = sum_k a_ik * b_kj')
    C['vf_m2_vec'] = ([fo(2)], vec(['a0 * x0 + a1 * x1', 'a2 * x0 + a3 * x1']), 'matrix * vector')
    C['vf_m2_transpose'] = ([fo(4)], eqs('o', [[A2[c][r] for c in range(2)] for r in range(2)]), 'transpose')
    C['vf_m2_identity'] = ([fo(4)], eqs('o', [['1', '0'], ['0', '1']]), 'identity')
    C['vf_m2_det'] = ([], '__CPROVER_return_value == (u32)%s' % det2('a0', 'a1', 'a2', 'a3'), 'determinant 2x2 = ad - bc')
    C['vf_m2_adjugate'] = ([fo(4)], eqs('o', adj(A2)), 'adjugate 2x2 = [[d, -b], [-c, a]]')
    C['vf_m3_add'] = ([fo(9)], eqs('o', [['%s + %s' % (A3[r][c], B3[r][c]) for c in range(3)] for r in range(3)]), 'matrix + (3x3)')
    C['vf_m3_mul'] = ([fo(9)], eqs('o', mmul(A3, B3, 3)), 'matrix product (3x3)')
    C['vf_m3_vec'] = ([fo(3)], vec([' + '.join('%s * x%d' % (A3[r][k], k) for k in range(3)) for r in range(3)]), 'matrix * vector (3x3)')
    C['vf_m3_transpose'] = ([fo(9)], eqs('o', [[A3[c][r] for c in range(3)] for r in range(3)]), 'transpose (3x3)')
    C['vf_m3_identity'] = ([fo(9)], eqs('o', [['1' if r == c else '0' for c in range(3)] for r in range(3)]), 'identity (3x3)')
    C['vf_m3_det'] = ([], '__CPROVER_return_value == (u32)%s' % det3(A3), 'determinant 3x3 by cofactor expansion')
    C['vf_m3_adjugate'] = ([fo(9)], eqs('o', adj(A3)), 'adjugate 3x3 = transposed cofactor matrix')
    C['vf_m3_delete'] = ([fo(8)], eqs('o', minor(A3, 1, 0)) + ' && ' + eqs('o', minor(A3, 0, 2), 4), 'delete_row_and_column')
    C['vf_m3_row_at'] = ([fo(3)], vec(['a3', 'a4', 'a5']), 'at_r<1> is the second row')
    C['vf_m4_translation_scaling'] = ([fo(22)], vec(['1', '0', '0', 'x', '0', '1', '0', 'y', '0', '0', '1', 'z', '0', '0', '0', '1', 'x', 'y', 'z', '1', '0', '0']), 'translation / scaling builders (4x4)')
    spec = ''
    for f, (req, ens, what) in C.items():
        spec += 'function %s\n' % f + ''.join('  __CPROVER_requires(%s)\n' % r for r in req) + '  __CPROVER_assigns(%s)\n' % (OW if req else '') + '  __CPROVER_ensures(%s)\n' % ens
    P.generated['c14.spec'] = spec
    # identities on the real code
    d4 = lambda p: ' '.join('u32 %s%d;' % (p, i) for i in range(4))
    a4 = lambda p: ', '.join('%s%d' % (p, i) for i in range(4))
    t4 = lambda t: ', '.join('%s[%d]' % (t, i) for i in range(4))
    d9 = lambda p: ' '.join('u32 %s%d;' % (p, i) for i in range(9))
    a9 = lambda p: ', '.join('%s%d' % (p, i) for i in range(9))
    t9 = lambda t: ', '.join('%s[%d]' % (t, i) for i in range(9))
    same = lambda x, y, n: ' && '.join('%s[%d] == %s[%d]' % (x, i, y, i) for i in range(n))
    h = '''
void h_m2_assoc(void){ %(da)s %(db)s %(dc)s u32 ab[4], bc[4], l[4], r[4];
  vf_m2_mul(%(a)s, %(b)s, ab); vf_m2_mul(%(tab)s, %(c)s, l); vf_m2_mul(%(b)s, %(c)s, bc); vf_m2_mul(%(a)s, %(tbc)s, r);
  __CPROVER_assert(%(lr4)s, "matrix product is associative (2x2)"); VF_PROBE(); }
void h_m2_distrib(void){ %(da)s %(db)s %(dc)s u32 s[4], l[4], ab[4], ac[4], r[4];
  vf_m2_add(%(b)s, %(c)s, s); vf_m2_mul(%(a)s, %(ts)s, l); vf_m2_mul(%(a)s, %(b)s, ab); vf_m2_mul(%(a)s, %(c)s, ac); vf_m2_add(%(tab)s, %(tac)s, r);
  __CPROVER_assert(%(lr4)s, "matrix product distributes over + (2x2)"); VF_PROBE(); }
void h_m2_transpose(void){ %(da)s %(db)s u32 ab[4], l[4], at[4], bt[4], r[4], tt[4];
  vf_m2_mul(%(a)s, %(b)s, ab); vf_m2_transpose(%(tab)s, l); vf_m2_transpose(%(a)s, at); vf_m2_transpose(%(b)s, bt); vf_m2_mul(%(tbt)s, %(tat)s, r);
  __CPROVER_assert(%(lr4)s, "(AB)^T == B^T A^T (2x2)");
  vf_m2_transpose(%(tat)s, tt); __CPROVER_assert(tt[0] == a0 && tt[1] == a1 && tt[2] == a2 && tt[3] == a3, "transpose is an involution (2x2)"); VF_PROBE(); }
void h_m2_det_mult(void){ %(da)s %(db)s u32 ab[4];
  vf_m2_mul(%(a)s, %(b)s, ab);
  __CPROVER_assert(vf_m2_det(%(tab)s) == (u32)(vf_m2_det(%(a)s) * vf_m2_det(%(b)s)), "determinant is multiplicative (2x2)"); VF_PROBE(); }
void h_m2_adjugate(void){ %(da)s u32 ad[4], l[4], id[4];
  vf_m2_adjugate(%(a)s, ad); vf_m2_mul(%(a)s, %(tad)s, l); u32 d = vf_m2_det(%(a)s); vf_m2_identity(id);
  __CPROVER_assert(l[0] == (u32)(d * id[0]) && l[1] == (u32)(d * id[1]) && l[2] == (u32)(d * id[2]) && l[3] == (u32)(d * id[3]), "A * adjugate(A) == det(A) * identity (2x2)"); VF_PROBE(); }
void h_m3_transpose(void){ %(da9)s u32 at[9], tt[9];
  vf_m3_transpose(%(a9)s, at); vf_m3_transpose(%(tat9)s, tt);
  __CPROVER_assert(%(inv9)s, "transpose is an involution (3x3)"); VF_PROBE(); }
void h_m3_adjugate(void){ %(da9)s u32 ad[9], l[9], id[9];
  vf_m3_adjugate(%(a9)s, ad); vf_m3_mul(%(a9)s, %(tad9)s, l); u32 d = vf_m3_det(%(a9)s); vf_m3_identity(id);
  __CPROVER_assert(%(adj9)s, "A * adjugate(A) == det(A) * identity (3x3)"); VF_PROBE(); }
void h_m3_assoc(void){ %(da9)s %(db9)s %(dc9)s u32 ab[9], bc[9], l[9], r[9];
  vf_m3_mul(%(a9)s, %(b9)s, ab); vf_m3_mul(%(tab9)s, %(c9)s, l); vf_m3_mul(%(b9)s, %(c9)s, bc); vf_m3_mul(%(a9)s, %(tbc9)s, r);
  __CPROVER_assert(%(lr9)s, "matrix product is associative (3x3)"); VF_PROBE(); }
void h_m3_det_mult(void){ %(da9)s %(db9)s u32 ab[9];
  vf_m3_mul(%(a9)s, %(b9)s, ab);
  __CPROVER_assert(vf_m3_det(%(tab9)s) == (u32)(vf_m3_det(%(a9)s) * vf_m3_det(%(b9)s)), "determinant is multiplicative (3x3)"); VF_PROBE(); }
''' % dict(da=d4('a'), db=d4('b'), dc=d4('c'), a=a4('a'), b=a4('b'), c=a4('c'), tab=t4('ab'), tbc=t4('bc'), ts=t4('s'), tac=t4('ac'), tat=t4('at'), tbt=t4('bt'), tad=t4('ad'), lr4=same('l', 'r', 4),
           da9=d9('a'), db9=d9('b'), dc9=d9('c'), a9=a9('a'), b9=a9('b'), c9=a9('c'), tat9=t9('at'), tad9=t9('ad'), tab9=t9('ab'), tbc9=t9('bc'), lr9=same('l', 'r', 9),
           inv9=' && '.join('tt[%d] == a%d' % (i, i) for i in range(9)), adj9=' && '.join('l[%d] == (u32)(d * id[%d])' % (i, i) for i in range(9)))
    P.generated['c14_h.c'] = h
    u = P.unit('c14', 'shim.cpp', specs=['c14.spec'], harness=['c14_h.c'], inline=True)
    for f, (req, ens, what) in C.items():
        u.contract(f, cls='P', backends=['z3', 'cvc5', 'sat'], stagger=3, what=what, timeout=600)
    for hn, what, opt, tr in (('h_m2_assoc', 'associativity 2x2', False, 'quick'), ('h_m2_distrib', 'distributivity 2x2', False, 'quick'), ('h_m2_transpose', '(AB)^T = B^T A^T and involution, 2x2', False, 'quick'),
                              ('h_m2_det_mult', 'det(AB) = det(A) det(B), 2x2', False, 'quick'), ('h_m2_adjugate', 'A adj(A) = det(A) I, 2x2', False, 'quick'),
                              ('h_m3_transpose', 'transpose involution 3x3', False, 'quick'), ('h_m3_adjugate', 'A adj(A) = det(A) I, 3x3', True, 'quick'),
                              ('h_m3_assoc', 'associativity 3x3', True, 'quick'), ('h_m3_det_mult', 'det(AB) = det(A) det(B), 3x3', True, 'thorough')):
        u.lemma(hn, cls='P', backends=['z3', 'z3new', 'cvc5'], stagger=2, native=False, timeout=600, optional=opt, tier=tr,
                what='identity on the real templates over Z/2^32: ' + what)
    # ---- second unit: comparison, init / map, helpers, 4x4 (more.cpp)
    M = {}
    S = lambda v: '(i32)%s' % v
    def lex_lt(xs, ys):
        e = '0'
        for x, y in reversed(list(zip(xs, ys))):
            e = '(%s < %s || (%s == %s && %s))' % (S(x), S(y), S(x), S(y), e)
        return e
    def cmp_ens(xs, ys):
        eq = '(' + ' && '.join('%s == %s' % (x, y) for x, y in zip(xs, ys)) + ')'
        lt, gt = lex_lt(xs, ys), lex_lt(ys, xs)
        return 'o[0] == %s && o[1] == !%s && o[2] == %s && o[3] == %s && o[4] == !%s && o[5] == !%s' % (eq, eq, lt, gt, gt, lt)
    fb = lambda n: '__CPROVER_is_fresh(o, %d)' % n
    for nm, n in (('vf_v2_cmp', 2), ('vf_v3_cmp', 3), ('vf_v4_cmp', 4), ('vf_d3_cmp', 3)):
        xs, ys = ['x%d' % i for i in range(n)], ['y%d' % i for i in range(n)]
        M[nm] = ([fb(6)], cmp_ens(xs, ys), '==, !=, <, >, <=, >= of %d-dimensional %s agree with equality and the lexicographic order of plain arrays' % (n, 'dims' if 'd3' in nm else 'vectors'))
    M['vf_m2_cmp'] = ([fb(2)], 'o[0] == (a0 == b0 && a1 == b1 && a2 == b2 && a3 == b3) && o[1] == !(a0 == b0 && a1 == b1 && a2 == b2 && a3 == b3)', 'matrix == / != compare every entry')
    M['vf_v3_init'] = ([fo(3)], vec(['s', 's + 7', 's + 14']), 'vector::init: component i is f(i)')
    M['vf_d3_init'] = ([fo(3)], vec(['s', 's + 7', 's + 14']), 'dim::init: component i is f(i)')
    M['vf_v3_map'] = ([fo(3)], vec(['x0 * 3 + s', 'x1 * 3 + s', 'x2 * 3 + s']), 'vector::map: f per component')
    M['vf_d3_map'] = ([fo(3)], vec(['x0 * 3 + s', 'x1 * 3 + s', 'x2 * 3 + s']), 'dim::map: f per component')
    M['vf_v3_binary_map'] = ([fo(3)], vec(['x0 * 5 - y0', 'x1 * 5 - y1', 'x2 * 5 - y2']), 'vector::binary_map: f per pair of components')
    M['vf_m23_init'] = ([fo(6)], vec(['s', 's + 1', 's + 2', 's + 10', 's + 11', 's + 12']), 'matrix::init (2x3): entry (r,c) is f(index<r,c>), row-major')
    M['vf_m2_map'] = ([fo(4)], vec(['a0 * 3 + s', 'a1 * 3 + s', 'a2 * 3 + s', 'a3 * 3 + s']), 'matrix::map: f per entry')
    M['vf_m2_binary_map'] = ([fo(4)], vec(['a%d * 5 - b%d' % (i, i) for i in range(4)]), 'matrix::binary_map: f per pair of entries')
    M['vf_m2_structure_cast'] = ([fo(4)], 'o[0] == a0 && o[1] == a1 && o[2] == a2 && o[3] == a3', 'matrix structure_cast converts each entry')
    M['vf_d3_contents'] = ([], '__CPROVER_return_value == (u32)(1u * x0 * x1 * x2)', 'dim::contents: product of the components')
    M['vf_d3_is_quadratic'] = ([], '__CPROVER_return_value == (x0 == x1 && x1 == x2)', 'dim::is_quadratic: all components equal')
    M['vf_d3_null_fill_narrow_push'] = ([fo(11)], vec(['0', '0', '0', 's', 's', 's', 'x0', 'x1', 'x0', 'x1', 's']), 'dim null / fill / narrow_cast / push_back')
    M['vf_v3_unit'] = ([fo(3)], vec(['(axis == 0 ? 1 : 0)', '(axis == 1 ? 1 : 0)', '(axis == 2 ? 1 : 0)']), 'vector::unit(axis): 1 at the axis, 0 elsewhere')
    M['vf_v3_mod'] = ([fo(3)], '__CPROVER_return_value == (y0 != 0 && y1 != 0 && y2 != 0) && VF_IMP(y0 != 0 && y1 != 0 && y2 != 0, o[0] == x0 % y0 && o[1] == x1 % y1 && o[2] == x2 % y2)', 'vector::mod(v, w): per component, nothing if any divisor is 0')
    M['vf_v3_mod_scalar'] = ([fo(3)], '__CPROVER_return_value == (d != 0) && VF_IMP(d != 0, o[0] == x0 % d && o[1] == x1 % d && o[2] == x2 % d)', 'vector::mod(v, d): per component, nothing for d == 0')
    M['vf_v3_to_signed_unsigned'] = (['__CPROVER_is_fresh(os, 12) && __CPROVER_is_fresh(ou, 12)'], 'os[0] == x0 && os[1] == x1 && os[2] == x2 && ou[0] == y0 && ou[1] == y1 && ou[2] == y2', 'to_signed / to_unsigned convert each component')
    M['vf_v3_bit_strings'] = ([fo(24)], ' && '.join('o[%d] == %d' % (3 * k + j, (k >> j) & 1) for k in range(8) for j in range(3)), 'bit_strings<3>: the 8 bit vectors in the documented order')
    M['vf_v2_bit_strings'] = ([fo(8)], ' && '.join('o[%d] == %d' % (2 * k + j, (k >> j) & 1) for k in range(4) for j in range(2)), 'bit_strings<2>: the 4 bit vectors in the documented order')
    A4m, B4m = mat('a', 4), mat('b', 4)
    M['vf_m4_mul'] = ([fo(16)], eqs('o', mmul(A4m, B4m, 4)), 'matrix product (4x4): entry (i,j) = sum_k a_ik * b_kj')
    M['vf_m4_transpose'] = ([fo(16)], eqs('o', [[A4m[c][r] for c in range(4)] for r in range(4)]), 'transpose (4x4)')
    M['vf_m4_vec'] = ([fo(4)], vec([' + '.join('%s * x%d' % (A4m[r][k], k) for k in range(4)) for r in range(4)]), 'matrix * vector (4x4)')
    M['vf_m4_transform'] = ([fo(6)], vec(['%s * x0 + %s * x1 + %s * x2 + %s' % tuple(A4m[r]) for r in range(3)] + ['%s * x0 + %s * x1 + %s * x2' % tuple(A4m[r][:3]) for r in range(3)]), 'transform_point = (M (v,1))_xyz, transform_direction = (M (v,0))_xyz')
    det4 = '(' + ' + '.join('%s%s * %s' % ('' if c % 2 == 0 else '0u - ', A4m[c][0], det3(minor(A4m, c, 0))) for c in range(4)) + ')'
    M['vf_m4_det'] = ([], '__CPROVER_return_value == (u32)%s' % det4, 'determinant 4x4 by cofactor expansion along the first column')
    A23 = [['a0', 'a1', 'a2'], ['a3', 'a4', 'a5']]; B32 = [['b0', 'b1'], ['b2', 'b3'], ['b4', 'b5']]
    prod = lambda X, Y: [['(' + ' + '.join('%s * %s' % (X[r][k], Y[k][c]) for k in range(len(Y))) + ')' for c in range(len(Y[0]))] for r in range(len(X))]
    flat = lambda Mx: [e for row in Mx for e in row]
    M['vf_m23_m32_mul'] = ([fo(12)], vec(flat(prod(A23, B32)) + flat([[A23[c][r] for c in range(2)] for r in range(3)]) + ['a0 * b0 + a1 * b2 + a2 * b4', 'a3 * b0 + a4 * b2 + a5 * b4']),
                           'non-square matrices: (2x3)*(3x2), transpose of a 2x3 matrix, (2x3)*vector3 - every entry sums over the SHARED inner dimension')
    mspec = ''
    for f, (req, ens, what) in M.items():
        outs = ', '.join('__CPROVER_object_whole(%s)' % o for o in (('os', 'ou') if 'os' in ''.join(req) else (('o',) if req else ())))
        mspec += 'function %s\n' % f + ''.join('  __CPROVER_requires(%s)\n' % r for r in req) + '  __CPROVER_assigns(%s)\n' % outs + '  __CPROVER_ensures(%s)\n' % ens
    P.generated['c14m.spec'] = mspec
    um = P.unit('more', 'more.cpp', specs=['c14m.spec'], inline=True)
    for f, (req, ens, what) in M.items():
        loop = 'bit_strings' in f
        um.contract(f, cls='W' if loop else 'P', unwind=10 if loop else None, bound='loop over the 2^N result vectors in the shim' if loop else '', backends=['z3', 'cvc5', 'sat'], stagger=3, what=what, timeout=600)
    return P
