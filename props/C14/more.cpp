// C14 shim (second unit): comparison, init / map / binary_map, contents, unit, mod, to_signed / to_unsigned, bit_strings,
// transform_point / transform_direction, matrix init / map / comparison / structure_cast, 4x4 product / transpose / determinant.
#include <fcppt/math/vector/static.hpp>
#include <fcppt/math/vector/comparison.hpp>
#include <fcppt/math/vector/init.hpp>
#include <fcppt/math/vector/map.hpp>
#include <fcppt/math/vector/binary_map.hpp>
#include <fcppt/math/vector/unit.hpp>
#include <fcppt/math/vector/mod.hpp>
#include <fcppt/math/vector/to_signed.hpp>
#include <fcppt/math/vector/to_unsigned.hpp>
#include <fcppt/math/vector/bit_strings.hpp>
#include <fcppt/math/vector/at.hpp>
#include <fcppt/math/vector/arithmetic.hpp>
#include <fcppt/math/dim/static.hpp>
#include <fcppt/math/dim/comparison.hpp>
#include <fcppt/math/dim/contents.hpp>
#include <fcppt/math/dim/is_quadratic.hpp>
#include <fcppt/math/dim/init.hpp>
#include <fcppt/math/dim/map.hpp>
#include <fcppt/math/dim/at.hpp>
#include <fcppt/math/dim/fill.hpp>
#include <fcppt/math/dim/null.hpp>
#include <fcppt/math/dim/narrow_cast.hpp>
#include <fcppt/math/dim/push_back.hpp>
#include <fcppt/math/matrix/static.hpp>
#include <fcppt/math/matrix/comparison.hpp>
#include <fcppt/math/matrix/init.hpp>
#include <fcppt/math/matrix/map.hpp>
#include <fcppt/math/matrix/binary_map.hpp>
#include <fcppt/math/matrix/index.hpp>
#include <fcppt/math/matrix/arithmetic.hpp>
#include <fcppt/math/matrix/transpose.hpp>
#include <fcppt/math/matrix/determinant.hpp>
#include <fcppt/math/matrix/row.hpp>
#include <fcppt/math/matrix/at_r_c.hpp>
#include <fcppt/math/matrix/transform_point.hpp>
#include <fcppt/math/matrix/transform_direction.hpp>
#include <fcppt/math/matrix/structure_cast.hpp>
#include <fcppt/math/matrix/vector.hpp>
#include <fcppt/cast/to_signed_fun.hpp>
#include <fcppt/optional/object.hpp>
using U = unsigned;
namespace m = fcppt::math;
using iv2 = m::vector::static_<int, 2>; using iv3 = m::vector::static_<int, 3>; using iv4 = m::vector::static_<int, 4>;
using uv3 = m::vector::static_<U, 3>; using ud3 = m::dim::static_<U, 3>; using id3 = m::dim::static_<int, 3>; using ud2 = m::dim::static_<U, 2>;
using um2 = m::matrix::static_<U, 2, 2>; using um4 = m::matrix::static_<U, 4, 4>; using um23 = m::matrix::static_<U, 2, 3>;
template <typename T> static void cmp6(T const &a, T const &b, bool *o){ o[0] = (a == b); o[1] = (a != b); o[2] = (a < b); o[3] = (a > b); o[4] = (a <= b); o[5] = (a >= b); }
static inline um4 mk4(U const *a){ return um4{m::matrix::row(a[0], a[1], a[2], a[3]), m::matrix::row(a[4], a[5], a[6], a[7]), m::matrix::row(a[8], a[9], a[10], a[11]), m::matrix::row(a[12], a[13], a[14], a[15])}; }
static inline void put4(um4 const &x, U *o){
  o[0] = m::matrix::at_r_c<0, 0>(x); o[1] = m::matrix::at_r_c<0, 1>(x); o[2] = m::matrix::at_r_c<0, 2>(x); o[3] = m::matrix::at_r_c<0, 3>(x);
  o[4] = m::matrix::at_r_c<1, 0>(x); o[5] = m::matrix::at_r_c<1, 1>(x); o[6] = m::matrix::at_r_c<1, 2>(x); o[7] = m::matrix::at_r_c<1, 3>(x);
  o[8] = m::matrix::at_r_c<2, 0>(x); o[9] = m::matrix::at_r_c<2, 1>(x); o[10] = m::matrix::at_r_c<2, 2>(x); o[11] = m::matrix::at_r_c<2, 3>(x);
  o[12] = m::matrix::at_r_c<3, 0>(x); o[13] = m::matrix::at_r_c<3, 1>(x); o[14] = m::matrix::at_r_c<3, 2>(x); o[15] = m::matrix::at_r_c<3, 3>(x); }
#define A4 U a0, U a1, U a2, U a3, U a4, U a5, U a6, U a7, U a8, U a9, U a10, U a11, U a12, U a13, U a14, U a15
#define B4 U b0, U b1, U b2, U b3, U b4, U b5, U b6, U b7, U b8, U b9, U b10, U b11, U b12, U b13, U b14, U b15
#define LA4 U const a[16] = {a0, a1, a2, a3, a4, a5, a6, a7, a8, a9, a10, a11, a12, a13, a14, a15}
#define LB4 U const b[16] = {b0, b1, b2, b3, b4, b5, b6, b7, b8, b9, b10, b11, b12, b13, b14, b15}
extern "C" {
// comparison: ==, !=, <, >, <=, >= against the lexicographic order of plain arrays
void vf_v2_cmp(int x0, int x1, int y0, int y1, bool *o){ cmp6(iv2{x0, x1}, iv2{y0, y1}, o); }
void vf_v3_cmp(int x0, int x1, int x2, int y0, int y1, int y2, bool *o){ cmp6(iv3{x0, x1, x2}, iv3{y0, y1, y2}, o); }
void vf_v4_cmp(int x0, int x1, int x2, int x3, int y0, int y1, int y2, int y3, bool *o){ cmp6(iv4{x0, x1, x2, x3}, iv4{y0, y1, y2, y3}, o); }
void vf_d3_cmp(int x0, int x1, int x2, int y0, int y1, int y2, bool *o){ cmp6(id3{x0, x1, x2}, id3{y0, y1, y2}, o); }
void vf_m2_cmp(U a0, U a1, U a2, U a3, U b0, U b1, U b2, U b3, bool *o){ um2 const a{m::matrix::row(a0, a1), m::matrix::row(a2, a3)}; um2 const b{m::matrix::row(b0, b1), m::matrix::row(b2, b3)}; o[0] = (a == b); o[1] = (a != b); }
// init / map / binary_map
void vf_v3_init(U s, U *o){ auto const r = m::vector::init<uv3>([s](m::size_type const i){ return s + static_cast<U>(i) * 7U; }); o[0] = r.x(); o[1] = r.y(); o[2] = r.z(); }
void vf_d3_init(U s, U *o){ auto const r = m::dim::init<ud3>([s](m::size_type const i){ return s + static_cast<U>(i) * 7U; }); o[0] = r.w(); o[1] = r.h(); o[2] = r.d(); }
void vf_v3_map(U x0, U x1, U x2, U s, U *o){ auto const r = m::vector::map(uv3{x0, x1, x2}, [s](U const x){ return x * 3U + s; }); o[0] = r.x(); o[1] = r.y(); o[2] = r.z(); }
void vf_d3_map(U x0, U x1, U x2, U s, U *o){ auto const r = m::dim::map(ud3{x0, x1, x2}, [s](U const x){ return x * 3U + s; }); o[0] = r.w(); o[1] = r.h(); o[2] = r.d(); }
void vf_v3_binary_map(U x0, U x1, U x2, U y0, U y1, U y2, U *o){ auto const r = m::vector::binary_map(uv3{x0, x1, x2}, uv3{y0, y1, y2}, [](U const x, U const y){ return x * 5U - y; }); o[0] = r.x(); o[1] = r.y(); o[2] = r.z(); }
void vf_m23_init(U s, U *o){ auto const r = m::matrix::init<um23>([s]<m::size_type R, m::size_type C>(m::matrix::index<R, C>){ return s + static_cast<U>(R) * 10U + static_cast<U>(C); });
  o[0] = m::matrix::at_r_c<0, 0>(r); o[1] = m::matrix::at_r_c<0, 1>(r); o[2] = m::matrix::at_r_c<0, 2>(r); o[3] = m::matrix::at_r_c<1, 0>(r); o[4] = m::matrix::at_r_c<1, 1>(r); o[5] = m::matrix::at_r_c<1, 2>(r); }
void vf_m2_map(U a0, U a1, U a2, U a3, U s, U *o){ um2 const a{m::matrix::row(a0, a1), m::matrix::row(a2, a3)}; auto const r = m::matrix::map(a, [s](U const x){ return x * 3U + s; });
  o[0] = m::matrix::at_r_c<0, 0>(r); o[1] = m::matrix::at_r_c<0, 1>(r); o[2] = m::matrix::at_r_c<1, 0>(r); o[3] = m::matrix::at_r_c<1, 1>(r); }
void vf_m2_binary_map(U a0, U a1, U a2, U a3, U b0, U b1, U b2, U b3, U *o){ um2 const a{m::matrix::row(a0, a1), m::matrix::row(a2, a3)}; um2 const b{m::matrix::row(b0, b1), m::matrix::row(b2, b3)};
  auto const r = m::matrix::binary_map(a, b, [](U const x, U const y){ return x * 5U - y; }); o[0] = m::matrix::at_r_c<0, 0>(r); o[1] = m::matrix::at_r_c<0, 1>(r); o[2] = m::matrix::at_r_c<1, 0>(r); o[3] = m::matrix::at_r_c<1, 1>(r); }
void vf_m2_structure_cast(U a0, U a1, U a2, U a3, int *o){ um2 const a{m::matrix::row(a0, a1), m::matrix::row(a2, a3)}; auto const r = m::matrix::structure_cast<m::matrix::static_<int, 2, 2>, fcppt::cast::to_signed_fun>(a);
  o[0] = m::matrix::at_r_c<0, 0>(r); o[1] = m::matrix::at_r_c<0, 1>(r); o[2] = m::matrix::at_r_c<1, 0>(r); o[3] = m::matrix::at_r_c<1, 1>(r); }
// dim helpers
U vf_d3_contents(U x0, U x1, U x2){ return m::dim::contents(ud3{x0, x1, x2}); }
bool vf_d3_is_quadratic(U x0, U x1, U x2){ return m::dim::is_quadratic(ud3{x0, x1, x2}); }
void vf_d3_null_fill_narrow_push(U x0, U x1, U x2, U s, U *o){ auto const n = m::dim::null<ud3>(); auto const f = m::dim::fill<ud3>(s); auto const nc = m::dim::narrow_cast<ud2>(ud3{x0, x1, x2}); auto const p = m::dim::push_back(ud2{x0, x1}, s);
  o[0] = n.w(); o[1] = n.h(); o[2] = n.d(); o[3] = f.w(); o[4] = f.h(); o[5] = f.d(); o[6] = nc.w(); o[7] = nc.h(); o[8] = p.w(); o[9] = p.h(); o[10] = p.d(); }
// vector helpers
void vf_v3_unit(U axis, U *o){ auto const r = m::vector::unit<uv3>(axis); o[0] = r.x(); o[1] = r.y(); o[2] = r.z(); }
bool vf_v3_mod(U x0, U x1, U x2, U y0, U y1, U y2, U *o){ auto const r = m::vector::mod(uv3{x0, x1, x2}, uv3{y0, y1, y2}); if (r.has_value()) { o[0] = r.get_unsafe().x(); o[1] = r.get_unsafe().y(); o[2] = r.get_unsafe().z(); } return r.has_value(); }
bool vf_v3_mod_scalar(U x0, U x1, U x2, U d, U *o){ auto const r = m::vector::mod(uv3{x0, x1, x2}, d); if (r.has_value()) { o[0] = r.get_unsafe().x(); o[1] = r.get_unsafe().y(); o[2] = r.get_unsafe().z(); } return r.has_value(); }
void vf_v3_to_signed_unsigned(U x0, U x1, U x2, int y0, int y1, int y2, int *os, U *ou){ auto const s = m::vector::to_signed(uv3{x0, x1, x2}); auto const u = m::vector::to_unsigned(iv3{y0, y1, y2}); os[0] = s.x(); os[1] = s.y(); os[2] = s.z(); ou[0] = u.x(); ou[1] = u.y(); ou[2] = u.z(); }
void vf_v3_bit_strings(int *o){ auto const r = m::vector::bit_strings<int, 3>(); unsigned k = 0; for (auto const &v : r) { o[k++] = v.x(); o[k++] = v.y(); o[k++] = v.z(); } }
void vf_v2_bit_strings(int *o){ auto const r = m::vector::bit_strings<int, 2>(); unsigned k = 0; for (auto const &v : r) { o[k++] = v.x(); o[k++] = v.y(); } }
// non-square: (2x3) * (3x2) -> 2x2, transpose of 2x3, (2x3) * vector3 -> vector2
void vf_m23_m32_mul(U a0, U a1, U a2, U a3, U a4, U a5, U b0, U b1, U b2, U b3, U b4, U b5, U *o){ um23 const a{m::matrix::row(a0, a1, a2), m::matrix::row(a3, a4, a5)}; m::matrix::static_<U, 3, 2> const b{m::matrix::row(b0, b1), m::matrix::row(b2, b3), m::matrix::row(b4, b5)};
  auto const r = a * b; o[0] = m::matrix::at_r_c<0, 0>(r); o[1] = m::matrix::at_r_c<0, 1>(r); o[2] = m::matrix::at_r_c<1, 0>(r); o[3] = m::matrix::at_r_c<1, 1>(r);
  auto const t = m::matrix::transpose(a); o[4] = m::matrix::at_r_c<0, 0>(t); o[5] = m::matrix::at_r_c<0, 1>(t); o[6] = m::matrix::at_r_c<1, 0>(t); o[7] = m::matrix::at_r_c<1, 1>(t); o[8] = m::matrix::at_r_c<2, 0>(t); o[9] = m::matrix::at_r_c<2, 1>(t);
  auto const v = a * uv3{b0, b2, b4}; o[10] = v.x(); o[11] = v.y(); }
// 4x4
void vf_m4_mul(A4, B4, U *o){ LA4; LB4; put4(mk4(a) * mk4(b), o); }
void vf_m4_transpose(A4, U *o){ LA4; put4(m::matrix::transpose(mk4(a)), o); }
U vf_m4_det(A4){ LA4; return m::matrix::determinant(mk4(a)); }
void vf_m4_vec(A4, U x0, U x1, U x2, U x3, U *o){ LA4; auto const r = mk4(a) * m::vector::static_<U, 4>{x0, x1, x2, x3}; o[0] = r.x(); o[1] = r.y(); o[2] = r.z(); o[3] = r.w(); }
void vf_m4_transform(A4, U x0, U x1, U x2, U *o){ LA4; auto const p = m::matrix::transform_point(mk4(a), uv3{x0, x1, x2}); auto const d = m::matrix::transform_direction(mk4(a), uv3{x0, x1, x2}); o[0] = p.x(); o[1] = p.y(); o[2] = p.z(); o[3] = d.x(); o[4] = d.y(); o[5] = d.z(); }
}
