"""C02 - parser combinators implement ordered-choice (PEG) semantics for every grammar.

Each combinator is verified against ABSTRACT children ("some PEG parser": per call an outcome tag, a value and a new
offset chosen by the harness), an abstract skipper and an abstract stream (ghost offset, uninterpreted text). The
harnesses are case-split exhaustively over the outcome tags (success / failure / fatal failure) of the calls that can
happen; values and offsets stay symbolic. Structural induction over well-formed grammars (M) lifts the per-combinator
contracts to every grammar.
"""
from vf.plan import Plan

PRE = r'''
/* ---- C02 ghost state: abstract stream, abstract children, abstract skipper ---- */
u32 __CPROVER_uninterpreted_ptext(u64);
u32 __CPROVER_uninterpreted_conv(u32);
u8 __CPROVER_uninterpreted_conv_ok(u32);
#define MAXC 4
static u64 g_off, g_len; static unsigned g_seeks, g_gets;
static unsigned c_calls[3]; static u64 off_at[3][MAXC]; static u32 eps_at[3][MAXC]; static u32 res[3][MAXC], val[3][MAXC]; static u64 noff[3][MAXC];
static unsigned s_calls; static u64 s_off_at[MAXC]; static u32 s_res[MAXC]; static u64 s_noff[MAXC];
static u8 ord[12]; static unsigned nord; static unsigned c_conv; static u32 l_conv;
'''
HOOKS = r'''
u32 vf_stream_get(void){ ++g_gets; if (g_off >= g_len) return (u32)-1; return __CPROVER_uninterpreted_ptext(g_off++) & 0xff; }
u64 vf_stream_tell(void){ return g_off; }
void vf_stream_seek(u64 o){ g_off = o; ++g_seeks; }
u32 vf_child(u32 id, u32 eps, u32 *value){ unsigned k = c_calls[id]++; __CPROVER_assert(k < MAXC && nord < 12, "harness script long enough"); off_at[id][k] = g_off; eps_at[id][k] = eps; ord[nord++] = (u8)id; g_off = noff[id][k]; *value = val[id][k]; return res[id][k]; }
u32 vf_skip(void){ unsigned k = s_calls++; __CPROVER_assert(k < MAXC && nord < 12, "harness script long enough"); s_off_at[k] = g_off; ord[nord++] = 3; g_off = s_noff[k]; return s_res[k]; }
u32 vf_conv(u32 x){ ++c_conv; l_conv = x; return __CPROVER_uninterpreted_conv(x); }
u32 vf_conv_ok(u32 x){ return __CPROVER_uninterpreted_conv_ok(x) & 1; }
/* script: symbolic values and offsets, outcome tags given per case */
#define SCRIPT_BEGIN u64 off0; __CPROVER_assume(off0 < (1ul << 40)); \
  for (unsigned a = 1; a < 3; ++a) for (unsigned b = 0; b < MAXC; ++b) { u32 v; u64 o; val[a][b] = v; noff[a][b] = o; res[a][b] = 1; } \
  for (unsigned b = 0; b < MAXC; ++b) { u64 o; s_noff[b] = o; s_res[b] = 0; } \
  { u64 l; g_len = l; } g_off = off0; g_seeks = 0; g_gets = 0; nord = 0; s_calls = 0; c_calls[1] = c_calls[2] = 0; c_conv = 0;
'''


def A(cond, msg):
    return '  __CPROVER_assert(%s, "%s");\n' % (cond, msg)


def make(tier):
    P = Plan('C02', level='proof', design_ref='DESIGN.md section 5 C02')
    P.meta += ['structural induction over well-formed grammars: every combinator is proved correct against children that are arbitrary PEG parsers (any outcome, any value, any new offset per call), so a grammar assembled from proved combinators has the documented semantics; the case split over outcome tags is exhaustive for the calls that can occur']
    P.not_decided += ['int_ / uint / float_ leaf parsers (iostream extraction)', 'basic_char_set / complement (std::unordered_set lookup: hash table heap code)', 'list, recursive/base/grammar plumbing, skipper::space / char_set (locale, hash table)',
                      'phrase_parse_stream / parse_string whole-input check (stream_to_string: iostream)', 'error message texts']
    cases = []   # (function name, body, what)

    def lemma(name, setup, call, asserts, what):
        body = 'void %s(void){\n  SCRIPT_BEGIN\n%s  %s\n%s  VF_PROBE();\n}\n' % (name, setup, call, asserts)
        cases.append((name, body, what))
    T = {0: 'success', 1: 'failure', 2: 'fatal'}
    first1 = 'c_calls[1] >= 1 && off_at[1][0] == off0 && ord[0] == 1'
    # ---------------- alternative
    for l in (0, 1, 2):
        for r in ((0, 1, 2) if l == 1 else (None,)):
            s = '  res[1][0] = %d;%s\n' % (l, '' if r is None else ' res[2][0] = %d;' % r)
            a = A(first1 + ' && c_calls[1] == 1', 'left is tried first, exactly once, at the start position')
            if l == 0:
                a += A('rc == 0 && out == val[1][0] && c_calls[2] == 0 && g_off == noff[1][0]', 'left success is the result; right is not tried; the input stays consumed')
            elif l == 2:
                a += A('rc == 2 && c_calls[2] == 0', 'a fatal error of the left parser stops backtracking: right is not tried')
            else:
                a += A('c_calls[2] == 1 && off_at[2][0] == off0', 'after a non-fatal failure of left, right is tried exactly once with the input rewound to the start position')
                if r == 0:
                    a += A('rc == 0 && out == val[2][0] && g_off == noff[2][0]', 'right success is the result')
                else:
                    a += A('rc == %d' % r, 'right failure is the result (fatal stays fatal)')
            lemma('h_alt_%d%s' % (l, '' if r is None else '_%d' % r), s, 'u32 out; u32 rc = vf_alternative(&out);', a, 'alternative: left %s%s' % (T[l], '' if r is None else ', right ' + T[r]))
    # ---------------- sequence
    for l in (0, 1, 2):
        for sk in ((0, 1, 2) if l == 0 else (None,)):
            for r in ((0, 1, 2) if sk == 0 else (None,)):
                s = '  res[1][0] = %d;%s%s\n' % (l, '' if sk is None else ' s_res[0] = %d;' % sk, '' if r is None else ' res[2][0] = %d;' % r)
                a = A(first1 + ' && c_calls[1] == 1 && eps_at[1][0] == 0', 'left is tried first, once, at the start position, with the caller\'s skipper')
                if l != 0:
                    a += A('rc == %d && s_calls == 0 && c_calls[2] == 0' % l, 'left failure is the result; neither the skipper nor right run')
                else:
                    a += A('s_calls == 1 && s_off_at[0] == noff[1][0] && ord[1] == 3', 'the skipper runs exactly once between the parts, at the position left stopped')
                    if sk != 0:
                        a += A('rc == %d && c_calls[2] == 0' % sk, 'a failing skipper fails the sequence; right is not tried')
                    else:
                        a += A('c_calls[2] == 1 && off_at[2][0] == s_noff[0] && ord[2] == 2 && nord == 3', 'right is tried once at the position after the skipper; nothing runs after it')
                        if r == 0:
                            a += A('rc == 0 && o1 == val[1][0] && o2 == val[2][0] && g_off == noff[2][0]', 'the result is the tuple of both results')
                        else:
                            a += A('rc == %d' % r, 'right failure is the result')
                lemma('h_seq_%d%s%s' % (l, '' if sk is None else '_%d' % sk, '' if r is None else '_%d' % r), s, 'u32 o1, o2; u32 rc = vf_sequence(&o1, &o2);', a, 'sequence: left %s%s%s' % (T[l], '' if sk is None else ', skipper ' + T[sk], '' if r is None else ', right ' + T[r]))
    # ---------------- optional / not / fatal / lexeme / convert / ignore / named
    for l in (0, 1, 2):
        s = '  res[1][0] = %d;\n' % l
        one = A(first1 + ' && c_calls[1] == 1 && c_calls[2] == 0', 'the child is tried exactly once at the start position')
        a = one + (A('rc == 0 && has == 1 && out == val[1][0] && g_off == noff[1][0]', 'child success: its result, input consumed') if l == 0 else
                   A('rc == 0 && has == 0 && g_off == off0', 'non-fatal failure: the empty optional, input rewound - an optional never fails') if l == 1 else A('rc == 2', 'a fatal error propagates'))
        lemma('h_opt_%d' % l, s, 'u32 has, out; u32 rc = vf_optional(&has, &out);', a, 'optional: child ' + T[l])
        a = one + A('g_off == off0', 'negative lookahead consumes nothing') + A('rc == %d' % (1 if l == 0 else 0), 'not_ fails exactly when the child succeeds')
        lemma('h_not_%d' % l, s, 'u32 rc = vf_not();', a, 'not_: child ' + T[l])
        a = one + (A('rc == 0 && out == val[1][0]', 'success passes through') if l == 0 else A('rc == 2', 'every error becomes fatal'))
        lemma('h_fatal_%d' % l, s, 'u32 out; u32 rc = vf_fatal(&out);', a, 'fatal: child ' + T[l])
        a = one + A('eps_at[1][0] == 1 && s_calls == 0', 'lexeme hands the epsilon skipper to its child and never runs the caller\'s skipper') + A('rc == %d' % l + (' && out == val[1][0]' if l == 0 else ''), 'the result is the child\'s')
        lemma('h_lexeme_%d' % l, s, 'u32 out; u32 rc = vf_lexeme(&out);', a, 'lexeme: child ' + T[l])
        a = one + (A('rc == 0 && out == __CPROVER_uninterpreted_conv(val[1][0]) && c_conv == 1 && l_conv == val[1][0]', 'convert applies f exactly once to the success value') if l == 0 else A('rc == %d && c_conv == 0' % l, 'errors remain unchanged, f is not invoked'))
        lemma('h_convert_%d' % l, s, 'u32 out; u32 rc = vf_convert(&out);', a, 'convert: child ' + T[l])
        a = one + (A('rc == ((__CPROVER_uninterpreted_conv_ok(val[1][0]) & 1) ? 0 : 1)', 'convert_if: success or failure as f decides') + A('VF_IMP(rc == 0, out == __CPROVER_uninterpreted_conv(val[1][0]))', 'converted value') if l == 0 else A('rc == %d && c_conv == 0' % l, 'errors remain unchanged'))
        lemma('h_convert_if_%d' % l, s, 'u32 out; u32 rc = vf_convert_if(&out);', a, 'convert_if: child ' + T[l])
        a = one + A('rc == %d' % l, 'ignore keeps success/failure/fatal, drops the value') + (A('g_off == noff[1][0]', 'input stays consumed') if l == 0 else '')
        lemma('h_ignore_%d' % l, s, 'u32 rc = vf_ignore();', a, 'ignore: child ' + T[l])
        a = one + A('rc == %d' % l + (' && out == val[1][0]' if l == 0 else ''), 'named keeps the outcome (a fatal error stays fatal: it must still stop backtracking)')
        lemma('h_named_%d' % l, s, 'u32 out; u32 rc = vf_named(&out);', a, 'named: child ' + T[l])
    # ---------------- repetition: script = outcomes of successive child calls / skipper calls
    reps = [('f', [1], []), ('F', [2], []), ('sf', [0, 1], [0]), ('sF', [0, 2], [0]), ('ssf', [0, 0, 1], [0, 0]), ('ssF', [0, 0, 2], [0, 0]), ('sK', [0], [1]), ('ssK', [0, 0], [0, 1]), ('sKF', [0], [2])]
    for nm, cs, ss in reps:
        s = '  ' + ' '.join('res[1][%d] = %d;' % (i, c) for i, c in enumerate(cs)) + ' ' + ' '.join('s_res[%d] = %d;' % (i, c) for i, c in enumerate(ss)) + '\n'
        nelem = 0
        for i, c in enumerate(cs):
            if c == 0 and i < len(ss) and ss[i] == 0:
                nelem += 1
        fatal = (cs[-1] == 2 and all(x == 0 for x in ss)) or (ss and ss[-1] == 2)
        a = A('c_calls[1] == %d && s_calls == %d && off_at[1][0] == off0' % (len(cs), len(ss)), 'the child is tried repeatedly from the start position, the skipper runs after each element, until the first failure')
        for i in range(1, len(cs)):
            a += A('off_at[1][%d] == s_noff[%d] && s_off_at[%d] == noff[1][%d]' % (i, i - 1, i - 1, i - 1), 'each further attempt starts where the skipper after the previous element stopped')
        if fatal:
            a += A('rc == 2', 'a fatal error stops the repetition with a fatal error')
        else:
            last = 'off0' if nelem == 0 else 's_noff[%d]' % (nelem - 1)
            a += A('rc == 0 && n == %d' % nelem + ''.join(' && out[%d] == val[1][%d]' % (i, i) for i in range(nelem)), 'a repetition never fails: it yields exactly the elements parsed completely (greedy)')
            a += A('g_off == %s' % last, 'the input is rewound to the position after the last complete element (and its skipper)')
        lemma('h_rep_%s' % nm, s, 'u32 n, out[3]; u32 rc = vf_repetition(&n, out);', a, 'repetition: child outcomes %s, skipper outcomes %s' % (cs, ss))
    # repetition_plus = p >> *p
    for nm, cs, ss in [('f', [1], []), ('F', [2], []), ('sf', [0, 1], [0]), ('ssf', [0, 0, 1], [0, 0]), ('sF', [0, 2], [0])]:
        s = '  ' + ' '.join('res[1][%d] = %d;' % (i, c) for i, c in enumerate(cs)) + ' ' + ' '.join('s_res[%d] = %d;' % (i, c) for i, c in enumerate(ss)) + '\n'
        if cs[0] != 0:
            a = A('rc == %d && c_calls[1] == 1' % cs[0], 'repetition_plus fails when not even one element can be parsed')
        elif cs[-1] == 2:
            a = A('rc == 2', 'a fatal error propagates')
        else:
            n = len(cs) - 1
            a = A('rc == 0 && n == %d' % n + ''.join(' && out[%d] == val[1][%d]' % (i, i) for i in range(n)) + ' && g_off == s_noff[%d]' % (n - 1), 'at least one element, then greedily as many as possible; input rewound to after the last complete element')
        lemma('h_rep_plus_%s' % nm, s, 'u32 n, out[3]; u32 rc = vf_repetition_plus(&n, out);', a, 'repetition_plus: child outcomes %s' % cs)
    # ---------------- leaves and entry point
    lemma('h_epsilon', '', 'u32 rc = vf_epsilon();', A('rc == 0 && g_off == off0 && g_gets == 0 && nord == 0', 'epsilon succeeds without consuming anything'), 'epsilon')
    lemma('h_fail', '', 'u32 rc = vf_fail();', A('rc == 1 && g_off == off0 && g_gets == 0', 'fail always fails (non-fatally) without consuming anything'), 'fail')
    lemma('h_char', '', 'u32 out; u32 rc = vf_char(&out);',
          A('rc == (off0 < g_len ? 0 : 1)', 'char_ succeeds exactly when a character is left') + A('VF_IMP(rc == 0, out == (__CPROVER_uninterpreted_ptext(off0) & 0xff) && g_off == off0 + 1)', 'it returns the next character and consumes exactly it') + A('VF_IMP(rc != 0, g_off == off0)', 'nothing consumed at end of input'), 'basic_char')
    lemma('h_literal', '  u8 c;\n', 'u32 rc = vf_literal(c);',
          A('rc == ((off0 < g_len && (__CPROVER_uninterpreted_ptext(off0) & 0xff) == c) ? 0 : 1)', 'literal{c} succeeds exactly when the next character is c') + A('VF_IMP(rc == 0, g_off == off0 + 1)', 'and consumes exactly it'), 'basic_literal')
    lemma('h_string2', '  u8 c0, c1;\n', 'u32 rc = vf_string2(c0, c1);',
          A('rc == ((off0 + 1 < g_len && (__CPROVER_uninterpreted_ptext(off0) & 0xff) == c0 && (__CPROVER_uninterpreted_ptext(off0 + 1) & 0xff) == c1) ? 0 : 1)', 'string{c0 c1} succeeds exactly when the next characters are c0, c1') + A('VF_IMP(rc == 0, g_off == off0 + 2)', 'and consumes exactly them'), 'basic_string (2 characters)')
    for sk in (0, 1, 2):
        for l in ((0, 1, 2) if sk == 0 else (None,)):
            s = '  s_res[0] = %d;%s\n' % (sk, '' if l is None else ' res[1][0] = %d;' % l)
            a = A('s_calls == 1 && s_off_at[0] == off0 && ord[0] == 3', 'phrase_parse runs the skipper first')
            a += (A('rc == %d && c_calls[1] == 0' % sk, 'a failing skipper fails the parse') if sk != 0 else A('c_calls[1] == 1 && off_at[1][0] == s_noff[0] && rc == %d' % l + (' && out == val[1][0]' if l == 0 else ''), 'then the parser runs at the position after the skipper; its result is returned'))
            lemma('h_phrase_%d%s' % (sk, '' if l is None else '_%d' % l), s, 'u32 out; u32 rc = vf_phrase_parse(&out);', a, 'phrase_parse: skipper %s%s' % (T[sk], '' if l is None else ', parser ' + T[l]))
    # ---------------- skipper combinators over abstract sub-skippers (driven by the child script)
    for l in (0, 1, 2):
        for r in ((0, 1, 2) if l == 0 else (None,)):
            s = '  res[1][0] = %d;%s\n' % (l, '' if r is None else ' res[2][0] = %d;' % r)
            a = A(first1 + ' && c_calls[1] == 1 && s_calls == 0', 'the left skipper runs first, once, at the start position')
            if l != 0:
                a += A('rc == %d && c_calls[2] == 0' % l, 'a failing left skipper is the result; right does not run')
            else:
                a += A('c_calls[2] == 1 && off_at[2][0] == noff[1][0] && rc == %d' % r + (' && g_off == noff[2][0]' if r == 0 else ''), 'right runs once where left stopped; its outcome is the result')
            lemma('h_skip_seq_%d%s' % (l, '' if r is None else '_%d' % r), s, 'u32 rc = vf_skip_sequence();', a, 'skipper::sequence: left %s%s' % (T[l], '' if r is None else ', right ' + T[r]))
    for nm, cs in [('f', [1]), ('F', [2]), ('sf', [0, 1]), ('sF', [0, 2]), ('ssf', [0, 0, 1]), ('ssF', [0, 0, 2])]:
        s = '  ' + ' '.join('res[1][%d] = %d;' % (i, c) for i, c in enumerate(cs)) + '\n'
        k = len(cs) - 1
        a = A('c_calls[1] == %d && off_at[1][0] == off0' % len(cs) + ''.join(' && off_at[1][%d] == noff[1][%d]' % (i, i - 1) for i in range(1, len(cs))), 'the skipper is applied repeatedly, each time where the previous application stopped, until the first failure')
        a += A('rc == 2', 'a fatal error propagates') if cs[-1] == 2 else (A('rc == 0', 'a skipper repetition never fails') + A('g_off == %s' % ('off0' if k == 0 else 'noff[1][%d]' % (k - 1)), 'the input is rewound to the position after the last successful application'))
        lemma('h_skip_rep_%s' % nm, s, 'u32 rc = vf_skip_repetition();', a, 'skipper::repetition: outcomes %s' % cs)
    lemma('h_skip_epsilon', '', 'u32 rc = vf_skip_epsilon();', A('rc == 0 && g_off == off0 && g_gets == 0 && nord == 0', 'the epsilon skipper succeeds without consuming anything'), 'skipper::epsilon')
    lemma('h_skip_literal', '  u8 c;\n', 'u32 rc = vf_skip_literal(c);',
          A('rc == ((off0 < g_len && (__CPROVER_uninterpreted_ptext(off0) & 0xff) == c) ? 0 : 1)', 'skipper::literal{c} succeeds exactly when the next character is c') + A('VF_IMP(rc == 0, g_off == off0 + 1)', 'and consumes exactly it'), 'skipper::basic_literal')
    # ---------------- separator = -(inner >> *(sep >> inner)) with the results joined into one vector
    seps = [('f', [1], [], 0, 'off0', 0), ('F', [2], [], None, None, 2), ('i_f', [0], [1], 1, 's_noff[0]', 0), ('i_s_i_f', [0, 0], [0, 1], 2, 's_noff[2]', 0), ('i_s_f', [0, 1], [0], 1, 's_noff[0]', 0), ('i_s_F', [0, 2], [0], None, None, 2)]
    for nm, c1, c2, n, off, rc in seps:
        s = '  ' + ' '.join('res[1][%d] = %d;' % (i, c) for i, c in enumerate(c1)) + ' ' + ' '.join('res[2][%d] = %d;' % (i, c) for i, c in enumerate(c2)) + '\n'
        a = A('off_at[1][0] == off0 && c_calls[1] == %d && c_calls[2] == %d' % (len(c1), len(c2)), 'inner is tried at the start position; separator and inner alternate until the first failure')
        if rc == 2:
            a += A('rc == 2', 'a fatal error propagates')
        else:
            a += A('rc == 0 && n == %d' % n + ''.join(' && out[%d] == val[1][%d]' % (i, i) for i in range(n)), 'separator never fails: exactly the elements parsed completely, in order (a separator without a following element is given back)')
            a += A('g_off == %s' % off, 'the input is rewound to the end of the last complete element (a trailing separator is not consumed)')
        lemma('h_separator_%s' % nm, s, 'u32 n, out[3]; u32 rc = vf_separator(&n, out);', a, 'separator: inner outcomes %s, separator outcomes %s' % (c1, c2))
    # ---------------- list = start >> (end -> empty | (separator(inner, sep) >> end)); start / sep / end are the unit children with id 2 (calls in order), inner is id 1
    lists = [('f', [], [1], 1, None), ('F', [], [2], 2, None), ('s_s', [], [0, 0], 0, 0), ('s_f_f_f', [1], [0, 1, 1], 1, None), ('s_F', [], [0, 2], 2, None), ('s_f_i_f_s', [0], [0, 1, 1, 0], 0, 1)]
    for nm, c1, c2, rc, n in lists:
        s = '  ' + ' '.join('res[1][%d] = %d;' % (i, c) for i, c in enumerate(c1)) + ' ' + ' '.join('res[2][%d] = %d;' % (i, c) for i, c in enumerate(c2)) + '\n'
        a = A('off_at[2][0] == off0 && ord[0] == 2 && c_calls[2] == %d && c_calls[1] == %d' % (len(c2), len(c1)), 'start is tried first at the start position; then end; only after a non-fatal failure of end the elements and end again')
        if rc == 0:
            a += A('rc == 0 && n == %d' % n + ''.join(' && out[%d] == val[1][%d]' % (i, i) for i in range(n)), 'the list succeeds with exactly the parsed elements')
        elif rc == 1:
            a += A('rc == 1', 'a list whose start or end does not match fails with an ORDINARY (non-fatal) error, so that enclosing alternatives / optionals / repetitions can still backtrack')
        else:
            a += A('rc == 2', 'a fatal error of a child propagates')
        lemma('h_list_%s' % nm, s, 'u32 n, out[3]; u32 rc = vf_list(&n, out);', a, 'list: inner outcomes %s, start/separator/end outcomes %s' % (c1, c2))
    P.generated['c02_ghost.h'] = PRE
    P.generated['c02_h.c'] = HOOKS + '\n'.join(b for _, b, _ in cases)
    u = P.unit('c02', 'shim.cpp', harness=['c02_h.c'], pre=['c02_ghost.h'], inline=True, maxb=32)
    for name, body, what in cases:
        bounded = name.startswith('h_rep') or name.startswith('h_separator') or name.startswith('h_skip_rep') or name.startswith('h_list')
        kw = dict(backends=['sat', 'cvc5'], timeout=900)
        if name.startswith('h_separator'):   # measured: 250-360 s (f, F, i_s_F), 650 s (i_f, i_s_f), > 900 s (i_s_i_f), cvc5 only (sat exceeds 12 GB)
            kw = dict(backends=['cvc5'], stagger=0, timeout=1200)
            if name in ('h_separator_i_f', 'h_separator_i_s_f'):
                kw.update(tier='thorough', timeout=2400)
            if name == 'h_separator_i_s_i_f':
                kw.update(tier='thorough', timeout=3600, optional=True)
        if name.startswith('h_list'):
            kw = dict(backends=['cvc5', 'sat'], stagger=5, timeout=1500, mem=16)
            if name in ('h_list_s_f_i_f_s', 'h_list_s_f_f_f'):   # measured: no answer in 1500 s (separator inside the list)
                kw.update(tier='thorough', timeout=3600, optional=True)
        u.lemma(name, cls='B' if bounded else 'P', unwind=40, native=False,
                bound='at most 3 iterations (the script of child outcomes ends with a failure within 3 calls); std::vector of results grows by push_back' if bounded else '',
                what=what, **kw)
    return P
