// C02 shim: every real fcppt.parse combinator instantiated over ABSTRACT children, an abstract skipper and an
// abstract stream. A child / the skipper is "some PEG parser": the harness decides per call (outcome tag, value, new
// offset). The stream forwards to a ghost offset over an uninterpreted text.
#include <fcppt/parse/alternative_decl.hpp>
#include <fcppt/parse/alternative_impl.hpp>
#include <fcppt/parse/sequence_decl.hpp>
#include <fcppt/parse/sequence_impl.hpp>
#include <fcppt/parse/optional_decl.hpp>
#include <fcppt/parse/optional_impl.hpp>
#include <fcppt/parse/not_decl.hpp>
#include <fcppt/parse/not_impl.hpp>
#include <fcppt/parse/fatal_decl.hpp>
#include <fcppt/parse/fatal_impl.hpp>
#include <fcppt/parse/lexeme.hpp>
#include <fcppt/parse/repetition_decl.hpp>
#include <fcppt/parse/repetition_impl.hpp>
#include <fcppt/parse/repetition_plus_decl.hpp>
#include <fcppt/parse/repetition_plus_impl.hpp>
#include <fcppt/parse/separator.hpp>
#include <fcppt/parse/list.hpp>
#include <fcppt/parse/convert.hpp>
#include <fcppt/parse/convert_if.hpp>
#include <fcppt/parse/ignore.hpp>
#include <fcppt/parse/named.hpp>
#include <fcppt/parse/epsilon.hpp>
#include <fcppt/parse/fail.hpp>
#include <fcppt/parse/basic_char.hpp>
#include <fcppt/parse/basic_literal.hpp>
#include <fcppt/parse/basic_string.hpp>
#include <fcppt/parse/basic_stream_decl.hpp>
#include <fcppt/parse/basic_stream_impl.hpp>
#include <fcppt/parse/phrase_parse.hpp>
#include <fcppt/parse/tag.hpp>
#include <fcppt/parse/result.hpp>
#include <fcppt/parse/error.hpp>
#include <fcppt/parse/fatal_tag.hpp>
#include <fcppt/parse/make_success.hpp>
#include <fcppt/parse/position.hpp>
#include <fcppt/parse/skipper/tag.hpp>
#include <fcppt/parse/skipper/result.hpp>
#include <fcppt/parse/skipper/make_success.hpp>
#include <fcppt/parse/skipper/epsilon.hpp>
#include <fcppt/parse/skipper/basic_literal.hpp>
#include <fcppt/parse/skipper/sequence_decl.hpp>
#include <fcppt/parse/skipper/sequence_impl.hpp>
#include <fcppt/parse/skipper/repetition_decl.hpp>
#include <fcppt/parse/skipper/repetition_impl.hpp>
#include <fcppt/either/make_failure.hpp>
#include <fcppt/either/match.hpp>
#include <fcppt/optional/object.hpp>
#include <fcppt/optional/maybe.hpp>
#include <fcppt/make_ref.hpp>
#include <fcppt/reference.hpp>
#include <fcppt/unit.hpp>
#include <fcppt/tuple/get.hpp>
#include <string>
#include <type_traits>
#include <vector>
extern "C" {
int vf_stream_get(void);                       // next character or -1
long vf_stream_tell(void);
void vf_stream_seek(long);
int vf_child(int id, int eps_skipper, int *value);   // 0 success, 1 failure, 2 fatal failure; eps_skipper: the skipper handed down is epsilon
int vf_skip(void);                             // the abstract skipper: 0 success, 1 failure, 2 fatal failure
int vf_conv(int);                              // conversion function of convert / convert_if
int vf_conv_ok(int);
}
namespace p = fcppt::parse;
struct abs_stream final : p::basic_stream<char> {
  abs_stream() = default; ~abs_stream() override = default;
  fcppt::optional::object<char> get_char() override { int const c = vf_stream_get(); return c < 0 ? fcppt::optional::object<char>{} : fcppt::optional::object<char>{static_cast<char>(c)}; }
  p::position<char> get_position() const override { return p::position<char>{std::char_traits<char>::pos_type{vf_stream_tell()}, p::position<char>::optional_location{}}; }
  void set_position(p::position<char> const &pos) override { vf_stream_seek(static_cast<long>(std::streamoff(pos.pos()))); }
};
template <int Id> struct abs_parser : private p::tag {
  using result_type = int;
  template <typename Ch, typename Skipper>
  p::result<Ch, int> parse(fcppt::reference<p::basic_stream<Ch>>, Skipper const &) const {
    int v = 0; int const r = vf_child(Id, std::is_same_v<Skipper, p::skipper::epsilon> ? 1 : 0, &v);
    if (r == 0) return p::make_success<Ch>(int{v});
    if (r == 1) return fcppt::either::make_failure<int>(p::error<Ch>{std::basic_string<Ch>{"x"}});
    return fcppt::either::make_failure<int>(p::error<Ch>{std::basic_string<Ch>{"y"}, p::fatal_tag{}});
  }
};
struct abs_skipper : private p::skipper::tag {
  template <typename Ch> p::skipper::result<Ch> skip(fcppt::reference<p::basic_stream<Ch>>) const {
    int const r = vf_skip();
    if (r == 0) return p::skipper::make_success<Ch>();
    if (r == 1) return p::skipper::result<Ch>{p::error<Ch>{std::basic_string<Ch>{"s"}}};
    return p::skipper::result<Ch>{p::error<Ch>{std::basic_string<Ch>{"t"}, p::fatal_tag{}}};
  }
};
template <int Id> struct abs_parser_unit : private p::tag {
  using result_type = fcppt::unit;
  template <typename Ch, typename Skipper>
  p::result<Ch, fcppt::unit> parse(fcppt::reference<p::basic_stream<Ch>>, Skipper const &) const {
    int v = 0; int const r = vf_child(Id, std::is_same_v<Skipper, p::skipper::epsilon> ? 1 : 0, &v);
    if (r == 0) return p::make_success<Ch>(fcppt::unit{});
    if (r == 1) return fcppt::either::make_failure<fcppt::unit>(p::error<Ch>{std::basic_string<Ch>{"x"}});
    return fcppt::either::make_failure<fcppt::unit>(p::error<Ch>{std::basic_string<Ch>{"y"}, p::fatal_tag{}});
  }
};
template <int Id> struct abs_skip : private p::skipper::tag {   // an abstract sub-skipper (driven by the same script as the abstract parsers)
  template <typename Ch> p::skipper::result<Ch> skip(fcppt::reference<p::basic_stream<Ch>>) const {
    int v = 0; int const r = vf_child(Id, 0, &v);
    if (r == 0) return p::skipper::make_success<Ch>();
    if (r == 1) return p::skipper::result<Ch>{p::error<Ch>{std::basic_string<Ch>{"s"}}};
    return p::skipper::result<Ch>{p::error<Ch>{std::basic_string<Ch>{"t"}, p::fatal_tag{}}};
  }
};
using P1 = abs_parser<1>; using P2 = abs_parser<2>; using U1 = abs_parser_unit<1>;
template <typename R> static int outcome(R const &r){ return fcppt::either::match(r, [](p::error<char> const &e){ return e.is_fatal() ? 2 : 1; }, [](auto const &){ return 0; }); }
template <typename S> static int run_skip(S const &q){ abs_stream s; return outcome(q.skip(fcppt::make_ref(static_cast<p::basic_stream<char> &>(s)))); }
template <typename Parser> static auto run(Parser const &q){ abs_stream s; return q.parse(fcppt::make_ref(static_cast<p::basic_stream<char> &>(s)), abs_skipper{}); }
extern "C" {
int vf_alternative(int *out){ auto const r = run(p::alternative<P1, P2>{P1{}, P2{}}); if (r.has_success()) *out = r.get_success_unsafe(); return outcome(r); }
int vf_sequence(int *o1, int *o2){ auto const r = run(p::sequence<P1, P2>{P1{}, P2{}}); if (r.has_success()) { *o1 = fcppt::tuple::get<0>(r.get_success_unsafe()); *o2 = fcppt::tuple::get<1>(r.get_success_unsafe()); } return outcome(r); }
int vf_optional(int *has, int *out){ auto const r = run(p::optional<P1>{P1{}}); if (r.has_success()) { *has = r.get_success_unsafe().has_value(); if (*has) *out = r.get_success_unsafe().get_unsafe(); } return outcome(r); }
int vf_not(void){ return outcome(run(p::not_<U1>{U1{}})); }
int vf_fatal(int *out){ auto const r = run(p::fatal<P1>{P1{}}); if (r.has_success()) *out = r.get_success_unsafe(); return outcome(r); }
int vf_lexeme(int *out){ auto const r = run(p::lexeme<P1>{P1{}}); if (r.has_success()) *out = r.get_success_unsafe(); return outcome(r); }
int vf_repetition(int *n, int *out){ auto const r = run(p::repetition<P1>{P1{}}); if (r.has_success()) { auto const &v = r.get_success_unsafe(); *n = static_cast<int>(v.size()); for (unsigned i = 0; i < 3 && i < v.size(); ++i) out[i] = v[i]; } return outcome(r); }
int vf_repetition_plus(int *n, int *out){ auto const r = run(p::repetition_plus<P1>{P1{}}); if (r.has_success()) { auto const &v = r.get_success_unsafe(); *n = static_cast<int>(v.size()); for (unsigned i = 0; i < 3 && i < v.size(); ++i) out[i] = v[i]; } return outcome(r); }
int vf_convert(int *out){ auto const r = run(p::convert<P1, int>{P1{}, p::convert<P1, int>::function_type{[](int &&x){ return vf_conv(x); }}}); if (r.has_success()) *out = r.get_success_unsafe(); return outcome(r); }
int vf_convert_if(int *out){ auto const r = run(p::convert_if<char, P1, int>{P1{}, p::convert_if<char, P1, int>::function_type{[](int &&x) -> p::result<char, int> { return vf_conv_ok(x) ? p::make_success<char>(vf_conv(x)) : fcppt::either::make_failure<int>(p::error<char>{std::string{"c"}}); }}}); if (r.has_success()) *out = r.get_success_unsafe(); return outcome(r); }
int vf_ignore(void){ return outcome(run(p::ignore<P1>{P1{}})); }
int vf_named(int *out){ auto const r = run(p::named<char, P1>{P1{}, std::string{"n"}}); if (r.has_success()) *out = r.get_success_unsafe(); return outcome(r); }
int vf_epsilon(void){ return outcome(run(p::epsilon{})); }
int vf_fail(void){ return outcome(run(p::fail<int>{})); }
int vf_char(int *out){ auto const r = run(p::basic_char<char>{}); if (r.has_success()) *out = static_cast<unsigned char>(r.get_success_unsafe()); return outcome(r); }
int vf_literal(char c){ return outcome(run(p::basic_literal<char>{c})); }
int vf_string2(char c0, char c1){ return outcome(run(p::basic_string<char>{std::string{c0, c1}})); }
int vf_phrase_parse(int *out){ abs_stream s; auto const r = p::phrase_parse(P1{}, static_cast<p::basic_stream<char> &>(s), abs_skipper{}); if (r.has_success()) *out = r.get_success_unsafe(); return outcome(r); }
int vf_skip_sequence(void){ return run_skip(p::skipper::sequence<abs_skip<1>, abs_skip<2>>{abs_skip<1>{}, abs_skip<2>{}}); }
int vf_skip_repetition(void){ return run_skip(p::skipper::repetition<abs_skip<1>>{abs_skip<1>{}}); }
int vf_skip_epsilon(void){ return run_skip(p::skipper::epsilon{}); }
int vf_skip_literal(char c){ return run_skip(p::skipper::basic_literal<char>{c}); }
int vf_list(int *n, int *out){ using U2 = abs_parser_unit<2>; auto const r = run(p::list<U2, P1, U2, U2>{U2{}, P1{}, U2{}, U2{}}); if (r.has_success()) { auto const &v = r.get_success_unsafe(); *n = static_cast<int>(v.size()); for (unsigned i = 0; i < 3 && i < v.size(); ++i) out[i] = v[i]; } return outcome(r); }
int vf_separator(int *n, int *out){ auto const r = run(p::separator<P1, abs_parser_unit<2>>{P1{}, abs_parser_unit<2>{}}); if (r.has_success()) { auto const &v = r.get_success_unsafe(); *n = static_cast<int>(v.size()); for (unsigned i = 0; i < 3 && i < v.size(); ++i) out[i] = v[i]; } return outcome(r); }
}
