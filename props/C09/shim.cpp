// C09 shim: scenarios over the real fcppt::container::tree::object<int>. Each scenario builds small trees through the
// public API (values symbolic), applies ONE operation and returns a bitmask of violated link predicates, computed by the
// plain recursive reference below (specification, not code under test).
#include <fcppt/container/tree/object.hpp>
#include <fcppt/container/tree/depth.hpp>
#include <fcppt/container/tree/level.hpp>
#include <fcppt/container/tree/child_position.hpp>
#include <fcppt/container/tree/pre_order.hpp>
#include <fcppt/container/tree/map.hpp>
#include <fcppt/container/tree/comparison.hpp>
#include <fcppt/container/tree/to_root.hpp>
#include <iterator>
#include <utility>
using tree = fcppt::container::tree::object<int>;
namespace ft = fcppt::container::tree;
// reference predicates ---------------------------------------------------------------------------------------------
static bool links_ok(tree const &n){      // every child's parent() is n, recursively
  for (tree const &c : n.children()) { auto const p = c.parent(); if (!p.has_value() || &p.get_unsafe().get() != &n) return false; if (!links_ok(c)) return false; }
  return true; }
static bool is_root(tree const &n){ return !n.parent().has_value(); }
static unsigned ref_depth(tree const &n){ unsigned d = 0; for (tree const &c : n.children()) { unsigned const x = ref_depth(c); if (x > d) d = x; } return d + 1; }
static tree mk1(int v, int c1){ tree t{v}; t.push_back(c1); return t; }                        // v -> [c1]
static tree mk2(int v, int c1, int c2){ tree t{v}; t.push_back(c1); t.push_back(c2); return t; }   // v -> [c1, c2]
static tree mk3(int v, int c1, int g){ tree t{v}; t.push_back(c1); t.front().get_unsafe().get().push_back(g); return t; }   // v -> [c1 -> [g]]
#define BAD(k, cond) do { if (!(cond)) bad |= (1u << (k)); } while (0)
extern "C" {
unsigned vf_tree_build(int v, int c1, int c2, int g){ unsigned bad = 0; tree t{mk2(v, c1, c2)}; t.front().get_unsafe().get().push_back(g);
  BAD(0, links_ok(t)); BAD(1, is_root(t)); BAD(2, t.size() == 2 && t.value() == v && t.front().get_unsafe().get().value() == c1 && t.back().get_unsafe().get().value() == c2);
  BAD(3, ft::depth(t) == 3 && ref_depth(t) == 3); BAD(4, ft::level(t.front().get_unsafe().get().front().get_unsafe().get()) == 2 && ft::level(t) == 0); return bad; }
unsigned vf_tree_push_tree(int v, int w, int c1, bool front){ unsigned bad = 0; tree t{v}; tree s{mk1(w, c1)}; if (front) t.push_front(std::move(s)); else t.push_back(std::move(s));
  BAD(0, links_ok(t)); BAD(1, is_root(t)); BAD(2, t.size() == 1 && t.front().get_unsafe().get().value() == w && t.front().get_unsafe().get().front().get_unsafe().get().value() == c1); return bad; }
unsigned vf_tree_insert_middle(int v, int c1, int c2, int x){ unsigned bad = 0; tree t{mk2(v, c1, c2)}; t.insert(std::next(t.begin()), x);
  BAD(0, links_ok(t)); BAD(1, t.size() == 3 && std::next(t.begin())->value() == x && t.front().get_unsafe().get().value() == c1 && t.back().get_unsafe().get().value() == c2); return bad; }
unsigned vf_tree_pop(int v, int c1, int c2, bool front){ unsigned bad = 0; tree t{mk2(v, c1, c2)}; auto r = front ? t.pop_front() : t.pop_back();
  BAD(0, links_ok(t)); BAD(1, r.has_value() && is_root(r.get_unsafe()) && r.get_unsafe().value() == (front ? c1 : c2)); BAD(2, t.size() == 1 && t.front().get_unsafe().get().value() == (front ? c2 : c1)); return bad; }
unsigned vf_tree_pop_empty(int v){ unsigned bad = 0; tree t{v}; auto r = t.pop_back(); auto r2 = t.pop_front(); BAD(0, !r.has_value() && !r2.has_value() && t.empty()); return bad; }
unsigned vf_tree_release(int v, int c1, int g){ unsigned bad = 0; tree t{mk3(v, c1, g)}; tree r{t.release(t.begin())};
  BAD(0, links_ok(t) && links_ok(r)); BAD(1, is_root(r) && r.value() == c1 && r.size() == 1 && r.front().get_unsafe().get().value() == g); BAD(2, t.empty()); return bad; }
unsigned vf_tree_erase_clear(int v, int c1, int c2, bool clear){ unsigned bad = 0; tree t{mk2(v, c1, c2)}; if (clear) t.clear(); else t.erase(t.begin());
  BAD(0, links_ok(t)); BAD(1, clear ? t.empty() : (t.size() == 1 && t.front().get_unsafe().get().value() == c2)); return bad; }
unsigned vf_tree_sort(int v, int c1, int c2){ unsigned bad = 0; tree t{mk2(v, c1, c2)}; t.sort();
  BAD(0, links_ok(t)); BAD(1, t.size() == 2 && t.front().get_unsafe().get().value() == (c1 < c2 ? c1 : c2) && t.back().get_unsafe().get().value() == (c1 < c2 ? c2 : c1)); return bad; }
unsigned vf_tree_swap(int v, int c1, int w, int d1){ unsigned bad = 0; tree a{mk1(v, c1)}; tree b{mk1(w, d1)}; a.swap(b);
  BAD(0, links_ok(a)); BAD(1, links_ok(b)); BAD(2, is_root(a) && is_root(b)); BAD(3, a.value() == w && b.value() == v && a.front().get_unsafe().get().value() == d1 && b.front().get_unsafe().get().value() == c1); return bad; }
unsigned vf_tree_swap_child(int v, int c1, int g, int w, int d1){ unsigned bad = 0; tree a{mk3(v, c1, g)}; tree b{mk1(w, d1)}; a.front().get_unsafe().get().swap(b);   // swap a CHILD node with a root
  BAD(0, links_ok(a)); BAD(1, links_ok(b)); BAD(2, is_root(a) && is_root(b)); BAD(3, a.front().get_unsafe().get().value() == w && b.value() == c1 && b.front().get_unsafe().get().value() == g); return bad; }
unsigned vf_tree_copy_ctor(int v, int c1, int g, int x){ unsigned bad = 0; tree a{mk3(v, c1, g)}; tree b{a}; b.front().get_unsafe().get().front().get_unsafe().get().value(x);   // deep and independent
  BAD(0, links_ok(a) && links_ok(b)); BAD(1, is_root(b)); BAD(2, a.front().get_unsafe().get().front().get_unsafe().get().value() == g && b.front().get_unsafe().get().front().get_unsafe().get().value() == x && b.value() == v); return bad; }
unsigned vf_tree_copy_child(int v, int c1, int g){ unsigned bad = 0; tree a{mk3(v, c1, g)}; tree b{a.front().get_unsafe().get()};   // copy of a node that is a child
  BAD(0, links_ok(b)); BAD(1, is_root(b)); BAD(2, b.value() == c1 && b.front().get_unsafe().get().value() == g); return bad; }
unsigned vf_tree_move_ctor(int v, int c1, int g){ unsigned bad = 0; tree a{mk3(v, c1, g)}; tree b{std::move(a)};
  BAD(0, links_ok(b)); BAD(1, is_root(b)); BAD(2, b.value() == v && b.front().get_unsafe().get().front().get_unsafe().get().value() == g); return bad; }
unsigned vf_tree_move_ctor_child(int v, int c1, int g){ unsigned bad = 0; tree a{mk3(v, c1, g)}; tree b{std::move(a.front().get_unsafe().get())};   // move-construct from a node that is a child
  BAD(0, links_ok(b)); BAD(1, is_root(b)); BAD(2, b.value() == c1 && b.front().get_unsafe().get().value() == g); BAD(3, links_ok(a)); return bad; }
unsigned vf_tree_copy_assign_child(int v, int c1, int w, int d1){ unsigned bad = 0; tree a{mk1(v, c1)}; tree const b{mk1(w, d1)}; a.front().get_unsafe().get() = b;   // assign to a node that is a child
  BAD(0, links_ok(a)); BAD(1, is_root(a)); BAD(2, a.front().get_unsafe().get().value() == w && a.front().get_unsafe().get().front().get_unsafe().get().value() == d1); BAD(3, links_ok(b)); return bad; }
unsigned vf_tree_move_assign_child(int v, int c1, int w, int d1){ unsigned bad = 0; tree a{mk1(v, c1)}; tree b{mk1(w, d1)}; a.front().get_unsafe().get() = std::move(b);
  BAD(0, links_ok(a)); BAD(1, is_root(a)); BAD(2, a.front().get_unsafe().get().value() == w && a.front().get_unsafe().get().front().get_unsafe().get().value() == d1); BAD(3, is_root(b)); return bad; }
unsigned vf_tree_assign_root(int v, int c1, int w, int d1, bool move){ unsigned bad = 0; tree a{mk1(v, c1)}; tree b{mk1(w, d1)}; if (move) a = std::move(b); else a = b;
  BAD(0, links_ok(a)); BAD(1, is_root(a)); BAD(2, a.value() == w && a.front().get_unsafe().get().value() == d1); BAD(3, links_ok(b) && is_root(b)); return bad; }
unsigned vf_tree_move_assign_from_child(int v, int c1, int g){ unsigned bad = 0; tree t{mk3(v, c1, g)}; t = std::move(t.front().get_unsafe().get());   // the source is a child of the target
  BAD(0, links_ok(t)); BAD(1, is_root(t)); BAD(2, t.value() == c1 && t.size() == 1 && t.front().get_unsafe().get().value() == g && t.front().get_unsafe().get().empty()); return bad; }
unsigned vf_tree_copy_assign_from_child(int v, int c1, int g){ unsigned bad = 0; tree t{mk3(v, c1, g)}; t = t.front().get_unsafe().get();
  BAD(0, links_ok(t)); BAD(1, is_root(t)); BAD(2, t.value() == c1 && t.size() == 1 && t.front().get_unsafe().get().value() == g && t.front().get_unsafe().get().empty()); return bad; }
unsigned vf_tree_copy_assign_grow(int v, int w, int d1){ unsigned bad = 0; tree a{v}; tree const b{mk1(w, d1)}; a = b;   // the source has more children than the target (a leaf)
  BAD(0, links_ok(a)); BAD(1, is_root(a)); BAD(2, a.value() == w && a.size() == 1 && a.front().get_unsafe().get().value() == d1); BAD(3, links_ok(b) && is_root(b) && b.size() == 1); return bad; }
unsigned vf_tree_child_position(int v, int c){ unsigned bad = 0; tree t{mk2(v, c, c)};   // two siblings with EQUAL contents
  auto const p0 = ft::child_position(t, t.front().get_unsafe().get()); auto const p1 = ft::child_position(t, t.back().get_unsafe().get()); tree other{c}; auto const pn = ft::child_position(t, other);
  BAD(0, p0.has_value() && p0.get_unsafe() == t.begin()); BAD(1, p1.has_value() && p1.get_unsafe() == std::next(t.begin())); BAD(2, !pn.has_value()); return bad; }
unsigned vf_tree_pre_order(int v, int c1, int c2, int g, int *out){ tree t{mk2(v, c1, c2)}; t.front().get_unsafe().get().push_back(g); unsigned n = 0;
  for (tree const &x : ft::pre_order<tree const>(t)) { if (n < 4) out[n] = x.value(); ++n; } return n; }
unsigned vf_tree_map(int v, int c1, int g){ unsigned bad = 0; tree const t{mk3(v, c1, g)}; using utree = fcppt::container::tree::object<unsigned>;
  utree const r{ft::map<utree>(t, [](int const x){ return static_cast<unsigned>(x) * 3U + 1U; })};
  bool lk = true; for (utree const &c : r.children()) { auto const p = c.parent(); if (!p.has_value() || &p.get_unsafe().get() != &r) lk = false; for (utree const &d : c.children()) { auto const q = d.parent(); if (!q.has_value() || &q.get_unsafe().get() != &c) lk = false; } }
  BAD(0, lk); BAD(1, !r.parent().has_value()); BAD(2, r.value() == static_cast<unsigned>(v) * 3U + 1U && r.size() == 1 && r.front().get_unsafe().get().value() == static_cast<unsigned>(c1) * 3U + 1U && r.front().get_unsafe().get().size() == 1 && r.front().get_unsafe().get().front().get_unsafe().get().value() == static_cast<unsigned>(g) * 3U + 1U);
  BAD(3, links_ok(t) && t.value() == v); return bad; }
unsigned vf_tree_equal(int v, int c1, int w, int d1){ unsigned bad = 0; tree const a{mk1(v, c1)}; tree const b{mk1(w, d1)}; tree const leaf{v};
  BAD(0, (a == b) == (v == w && c1 == d1)); BAD(1, (a != b) == !(v == w && c1 == d1)); BAD(2, !(a == leaf) && (a != leaf)); BAD(3, a == a); return bad; }
unsigned vf_tree_to_root(int v, int c1, int g, int *out){ tree t{mk3(v, c1, g)}; tree &leaf = t.front().get_unsafe().get().front().get_unsafe().get(); unsigned n = 0;
  for (tree const &x : ft::to_root<tree const>(leaf)) { if (n < 4) out[n] = x.value(); ++n; } return n; }
}
