"""C09 - tree keeps parent/child links consistent (bounded scenarios: trees of at most 4 nodes, one operation each)."""
from vf.plan import Plan

LIST = 'assumed contracts (executable models, harness.c): std::__detail::_List_node_base::_M_hook / _M_unhook / _M_transfer / swap (machine code in libstdc++.so)'
SC = [('vf_tree_build', 'push_back builds v -> [c1 -> [g], c2]: links, root, contents, depth and level agree with the recursive reference'),
      ('vf_tree_push_tree', 'push_front / push_back of a whole subtree'), ('vf_tree_insert_middle', 'insert in the middle'), ('vf_tree_pop', 'pop_front / pop_back: the popped node is a root'),
      ('vf_tree_pop_empty', 'pop on a leaf yields nothing'), ('vf_tree_release', 'release: the released subtree is a root with intact links'), ('vf_tree_erase_clear', 'erase / clear'),
      ('vf_tree_sort', 'sort keeps the links of the reordered children'), ('vf_tree_swap', 'swap of two roots with children'), ('vf_tree_swap_child', 'swap of a child node with a root'),
      ('vf_tree_copy_ctor', 'copy construction is deep and independent'), ('vf_tree_copy_child', 'copy of a child node is a root'), ('vf_tree_move_ctor', 'move construction'),
      ('vf_tree_move_ctor_child', 'move construction from a child node: the new tree is a root'), ('vf_tree_copy_assign_child', 'copy assignment TO a child node keeps it linked to its parent'),
      ('vf_tree_move_assign_child', 'move assignment TO a child node keeps it linked to its parent; the source stays a root'), ('vf_tree_assign_root', 'copy / move assignment between roots'),
      ('vf_tree_move_assign_from_child', 'move assignment FROM a child of the target (t = move(t.front())): the old children die, the links of the new ones are consistent'),
      ('vf_tree_copy_assign_from_child', 'copy assignment from a child of the target'),
      ('vf_tree_copy_assign_grow', 'copy assignment from a tree with more children than the target: every new child is linked to the target'),
      ('vf_tree_child_position', 'child_position identifies nodes by identity (equal siblings, foreign node)'),
      ('vf_tree_map', 'tree::map: same shape, f on every value, result links consistent, source intact'),
      ('vf_tree_equal', '== / != compare value and children recursively (also a tree with a leaf of the same value)')]


def make(tier):
    P = Plan('C09', level='model_checking', design_ref='DESIGN.md section 5 C09')
    P.assumptions.append(LIST)
    P.workers = 4   # each job needs up to ~20 GB
    P.meta += ['each scenario applies one operation to trees of a fixed small shape with symbolic values and compares every parent/child link with the plain recursive reference; shapes are chosen so that every operation is exercised on roots AND on nodes that are children of another node']
    P.not_decided += ['histories longer than one operation and forests beyond the listed shapes (bounded scenarios, not an invariant proof: tree nodes live in std::list heap nodes)', 'tree::sort (std::list::sort bucket loops), tree::map (a thorough-tier attempt: no answer in 900 s), comparison beyond the two-node shapes', 'log::context tree use']
    # lemma harnesses (no --dfcc write-set instrumentation: measured 10x cheaper on this pointer-heavy code)
    ARGS = {'vf_tree_build': 4, 'vf_tree_push_tree': 4, 'vf_tree_insert_middle': 4, 'vf_tree_pop': 4, 'vf_tree_pop_empty': 1, 'vf_tree_release': 3, 'vf_tree_erase_clear': 4, 'vf_tree_sort': 3,
            'vf_tree_swap': 4, 'vf_tree_swap_child': 5, 'vf_tree_copy_ctor': 4, 'vf_tree_copy_child': 3, 'vf_tree_move_ctor': 3, 'vf_tree_move_ctor_child': 3, 'vf_tree_copy_assign_child': 4,
            'vf_tree_move_assign_child': 4, 'vf_tree_assign_root': 5, 'vf_tree_move_assign_from_child': 3, 'vf_tree_copy_assign_from_child': 3, 'vf_tree_copy_assign_grow': 3, 'vf_tree_child_position': 2, 'vf_tree_map': 3, 'vf_tree_equal': 4}
    BOOL_LAST = ('vf_tree_push_tree', 'vf_tree_pop', 'vf_tree_erase_clear', 'vf_tree_assign_root')
    NAMES = ['every child\'s parent() is the node that lists it (links_ok)', 'root has no parent / second tree intact', 'contents as the reference model', 'further reference agreement', 'level / depth agree with the reference']
    h = ''
    for f, what in SC:
        n = ARGS[f]
        decl = ' '.join('VF_IN(u32, x%d);' % i for i in range(n))   # VF_IN: nondet under CBMC, the counterexample value in the native replay
        norm = ('x%d = (x%d != 0);' % (n - 1, n - 1)) if f in BOOL_LAST else ''
        h += 'void h_%s(void){ %s %s u32 bad = %s(%s);\n' % (f[3:], decl, norm, f, ', '.join('x%d' % i for i in range(n)))
        for k, nm in enumerate(NAMES):
            h += '  __CPROVER_assert((bad & %du) == 0, "%s: %s");\n' % (1 << k, what.replace('"', ''), nm)
        h += '  VF_PROBE(); }\n'
    h += 'void h_tree_pre_order(void){ VF_IN(u32, v); VF_IN(u32, c1); VF_IN(u32, c2); VF_IN(u32, g); u32 out[4]; u32 n = vf_tree_pre_order(v, c1, c2, g, out);\n  __CPROVER_assert(n == 4 && out[0] == v && out[1] == c1 && out[2] == g && out[3] == c2, "pre_order visits v, c1, g, c2 (depth first, children in order)"); VF_PROBE(); }\n'
    h += 'void h_tree_to_root(void){ VF_IN(u32, v); VF_IN(u32, c1); VF_IN(u32, g); u32 out[4]; u32 n = vf_tree_to_root(v, c1, g, out);\n  __CPROVER_assert(n == 3 && out[0] == g && out[1] == c1 && out[2] == v, "to_root visits the node, its parent, ..., the root"); VF_PROBE(); }\n'
    P.generated['c09_h.c'] = h
    u = P.unit('tree', 'shim.cpp', harness=['harness.c', 'c09_h.c'], inline=True, maxb=32)
    for f, what in SC + [('vf_tree_pre_order', 'pre_order visits v, c1, g, c2 (depth first, children in order)'), ('vf_tree_to_root', 'to_root from a grandchild visits the node, its parent, the root')]:
        if f == 'vf_tree_sort':
            continue   # std::list::sort loops over 64 merge buckets: needs unwind 66, does not close (listed as not decided)
        slow = f in ('vf_tree_erase_clear', 'vf_tree_pre_order', 'vf_tree_pop', 'vf_tree_map')   # measured > 5 min or > 24 GB: thorough-tier attempts
        two = f in ('vf_tree_build', 'vf_tree_insert_middle', 'vf_tree_pop', 'vf_tree_erase_clear', 'vf_tree_child_position', 'vf_tree_pre_order', 'vf_tree_to_root')   # shapes with two children need one more unwinding
        u.lemma('h_' + f[3:], cls='B', unwind=4 if two else 3, mem=24, bound='trees of at most 4 nodes of the shape named in the scenario, node values symbolic; list loops and recursion unwound 3 (one child per node) or 4 (two children) times with unwinding assertions', backends=['sat'], timeout=2400 if slow else 900, tier='thorough' if slow else 'quick', optional=slow,
                what='tree: ' + what, assumed=[LIST], cbmc=['--slice-formula'])
    return P
