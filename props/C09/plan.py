"""C09 - tree keeps parent/child links consistent (bounded scenarios: trees of at most 4 nodes, one operation each)."""
from vf.plan import Plan

LIST = 'assumed contracts (executable models, harness.c): std::__detail::_List_node_base::_M_hook / _M_unhook / _M_transfer / swap (machine code in libstdc++.so)'
SC = [('vf_tree_build', 'push_back builds v -> [c1 -> [g], c2]: links, root, contents, depth and level agree with the recursive reference'),
      ('vf_tree_push_tree', 'push_front / push_back of a whole subtree'), ('vf_tree_insert_middle', 'insert in the middle'), ('vf_tree_pop', 'pop_front / pop_back: the popped node is a root'),
      ('vf_tree_pop_empty', 'pop on a leaf yields nothing'), ('vf_tree_release', 'release: the released subtree is a root with intact links'), ('vf_tree_erase_clear', 'erase / clear'),
      ('vf_tree_sort', 'sort keeps the links of the reordered children'), ('vf_tree_swap', 'swap of two roots with children'), ('vf_tree_swap_child', 'swap of a child node with a root'),
      ('vf_tree_copy_ctor', 'copy construction is deep and independent'), ('vf_tree_copy_child', 'copy of a child node is a root'), ('vf_tree_move_ctor', 'move construction'),
      ('vf_tree_move_ctor_child', 'move construction from a child node: the new tree is a root'), ('vf_tree_copy_assign_child', 'copy assignment TO a child node keeps it linked to its parent'),
      ('vf_tree_move_assign_child', 'move assignment TO a child node keeps it linked to its parent; the source stays a root'), ('vf_tree_assign_root', 'copy / move assignment between roots'),
      ('vf_tree_child_position', 'child_position identifies nodes by identity (equal siblings, foreign node)')]


def make(tier):
    P = Plan('C09', level='model_checking', design_ref='DESIGN.md section 5 C09')
    P.assumptions.append(LIST)
    P.meta += ['each scenario applies one operation to trees of a fixed small shape with symbolic values and compares every parent/child link with the plain recursive reference; shapes are chosen so that every operation is exercised on roots AND on nodes that are children of another node']
    P.not_decided += ['histories longer than one operation and forests beyond the listed shapes (bounded scenarios, not an invariant proof: tree nodes live in std::list heap nodes)', 'tree::map, comparison, to_root iteration beyond level()', 'log::context tree use']
    spec = ''
    for f, what in SC:
        spec += 'function %s\n  __CPROVER_requires(%s)\n  __CPROVER_assigns()\n  __CPROVER_ensures(__CPROVER_return_value == 0)\n' % (f, '1')
    spec += 'function vf_tree_pre_order\n  __CPROVER_requires(__CPROVER_is_fresh(out, 16))\n  __CPROVER_assigns(__CPROVER_object_whole(out))\n  __CPROVER_ensures(__CPROVER_return_value == 4 && out[0] == v && out[1] == c1 && out[2] == g && out[3] == c2)\n'
    P.generated['c09.spec'] = spec
    u = P.unit('tree', 'shim.cpp', specs=['c09.spec'], harness=['harness.c'], inline=True, maxb=32)
    for f, what in SC + [('vf_tree_pre_order', 'pre_order visits v, c1, g, c2 (depth first, children in order)')]:
        u.contract(f, cls='B', unwind=8, bound='trees of at most 4 nodes of the shape named in the scenario, node values symbolic', backends=['sat', 'cvc5'], timeout=900, native=False,
                   what='tree: ' + what, assumed=[LIST], cbmc=['--memory-leak-check'])
    return P
