/* assumed contracts (executable models) of the libstdc++ list-node primitives, which exist only as machine code:
   std::__detail::_List_node_base::_M_hook / _M_unhook / _M_transfer / swap / _M_reverse (libstdc++ src/c++98/list.cc) */
struct vf_lnode { struct vf_lnode *next, *prev; };
#ifdef VF_HAVE__ZNSt8__detail15_List_node_base7_M_hookEPS0_
void _ZNSt8__detail15_List_node_base7_M_hookEPS0_(_ZNSt8__detail15_List_node_base7_M_hookEPS0__arg0_t self, _ZNSt8__detail15_List_node_base7_M_hookEPS0__arg1_t pos){
  struct vf_lnode *s = (struct vf_lnode *)self, *p = (struct vf_lnode *)pos; s->next = p; s->prev = p->prev; p->prev->next = s; p->prev = s; }
#endif
#ifdef VF_HAVE__ZNSt8__detail15_List_node_base9_M_unhookEv
void _ZNSt8__detail15_List_node_base9_M_unhookEv(_ZNSt8__detail15_List_node_base9_M_unhookEv_arg0_t self){
  struct vf_lnode *s = (struct vf_lnode *)self; struct vf_lnode *n = s->next, *p = s->prev; p->next = n; n->prev = p; }
#endif
#ifdef VF_HAVE__ZNSt8__detail15_List_node_base11_M_transferEPS0_S1_
void _ZNSt8__detail15_List_node_base11_M_transferEPS0_S1_(_ZNSt8__detail15_List_node_base11_M_transferEPS0_S1__arg0_t self, _ZNSt8__detail15_List_node_base11_M_transferEPS0_S1__arg1_t first_, _ZNSt8__detail15_List_node_base11_M_transferEPS0_S1__arg2_t last_){
  struct vf_lnode *t = (struct vf_lnode *)self, *first = (struct vf_lnode *)first_, *last = (struct vf_lnode *)last_;
  if (t != last) { last->prev->next = t; first->prev->next = last; t->prev->next = first; struct vf_lnode *tmp = t->prev; t->prev = last->prev; last->prev = first->prev; first->prev = tmp; } }
#endif
#ifdef VF_HAVE__ZNSt8__detail15_List_node_base4swapERS0_S1_
void _ZNSt8__detail15_List_node_base4swapERS0_S1_(_ZNSt8__detail15_List_node_base4swapERS0_S1__arg0_t x_, _ZNSt8__detail15_List_node_base4swapERS0_S1__arg1_t y_){
  struct vf_lnode *x = (struct vf_lnode *)x_, *y = (struct vf_lnode *)y_;
  if (x->next != x) {
    if (y->next != y) { struct vf_lnode *t = x->next; x->next = y->next; y->next = t; t = x->prev; x->prev = y->prev; y->prev = t; x->next->prev = x->prev->next = x; y->next->prev = y->prev->next = y; }
    else { y->next = x->next; y->prev = x->prev; y->next->prev = y->prev->next = y; x->next = x->prev = x; }
  } else if (y->next != y) { x->next = y->next; x->prev = y->prev; x->next->prev = x->prev->next = x; y->next = y->prev = y; } }
#endif
