"""C13 - axis-aligned boxes behave as half-open point sets.

A box is passed as its 2N corner scalars (min_i, max_i); a universally quantified point / box is a ghost
parameter of the shim (unused by the code), so the contract holds for every point without a quantifier.
Spec macros: IN(p,a) point membership, NE non-empty, WFB min<=max, COMMON closed form of "a common point
exists", SUBSET closed form of inclusion; the closed forms are justified by witness lemmas (spec-only jobs).
"""
from vf.plan import Plan

TYPES = [('i32', 'int', True), ('u32', 'unsigned', False)]


def make(tier):
    P = Plan('C13', level='proof', design_ref='DESIGN.md section 5 C13')
    P.not_decided += ['box::stretch_relative, output (floating point / iostream)', 'center, distance, structure_cast and extend_bounding_box(box, point) are under definitional contracts for box<int,2> only (unit extra)']
    make_extra(P)
    for N in (1, 2, 3):
        for (tn, tt, sg) in TYPES:
            make_inst(P, N, tn, tt, sg, tier)
    return P


def make_extra(P):
    """box<int,2>: extend_bounding_box(box, point), center, distance / interval, structure_cast, init_dim / init_max - the functions around the point-set core"""
    shim = """#include <fcppt/math/box/object.hpp>
#include <fcppt/math/box/extend_bounding_box.hpp>
#include <fcppt/math/box/center.hpp>
#include <fcppt/math/box/distance.hpp>
#include <fcppt/math/box/interval.hpp>
#include <fcppt/math/box/structure_cast.hpp>
#include <fcppt/math/box/contains_point.hpp>
#include <fcppt/math/box/comparison.hpp>
#include <fcppt/math/vector/static.hpp>
#include <fcppt/math/vector/at.hpp>
#include <fcppt/math/dim/static.hpp>
#include <fcppt/cast/size_fun.hpp>
#include <fcppt/tuple/get.hpp>
using box = fcppt::math::box::object<int, 2>; using vec = box::vector; using lbox = fcppt::math::box::object<long, 2>;
#define BX int ax0, int ay0, int ax1, int ay1
static box mk(int x0, int y0, int x1, int y1){ return box{vec{x0, y0}, vec{x1, y1}}; }   // pos, max
extern "C" {
void vf_extend_point(BX, int qx, int qy, int *o){ box const r{fcppt::math::box::extend_bounding_box(mk(ax0, ay0, ax1, ay1), vec{qx, qy})}; o[0] = r.pos().x(); o[1] = r.pos().y(); o[2] = r.max().x(); o[3] = r.max().y(); }
void vf_center(BX, int *o){ vec const c{fcppt::math::box::center(mk(ax0, ay0, ax1, ay1))}; o[0] = c.x(); o[1] = c.y(); }
void vf_distance(BX, int bx0, int by0, int bx1, int by1, int *o){ auto const d = fcppt::math::box::distance(mk(ax0, ay0, ax1, ay1), mk(bx0, by0, bx1, by1)); o[0] = d.x(); o[1] = d.y();
  auto const i0 = fcppt::math::box::interval<0>(mk(ax0, ay0, ax1, ay1)); auto const i1 = fcppt::math::box::interval<1>(mk(ax0, ay0, ax1, ay1)); o[2] = fcppt::tuple::get<0>(i0); o[3] = fcppt::tuple::get<1>(i0); o[4] = fcppt::tuple::get<0>(i1); o[5] = fcppt::tuple::get<1>(i1); }
void vf_box_structure_cast(BX, long *o){ lbox const r{fcppt::math::box::structure_cast<lbox, fcppt::cast::size_fun>(mk(ax0, ay0, ax1, ay1))}; o[0] = r.pos().x(); o[1] = r.pos().y(); o[2] = r.max().x(); o[3] = r.max().y(); o[4] = r.size().w(); o[5] = r.size().h(); }
}
"""
    S = lambda v: '(i32)%s' % v
    L = lambda v: '(i64)(i32)%s' % v
    ok = lambda a, b: '%s - %s >= -2147483648LL && %s - %s <= 2147483647LL' % (L(b), L(a), L(b), L(a))
    wf = '%s && %s' % (ok('ax0', 'ax1'), ok('ay0', 'ay1'))
    mn = lambda a, b: '(%s < %s ? %s : %s)' % (S(a), S(b), S(a), S(b))
    mx = lambda a, b: '(%s > %s ? %s : %s)' % (S(a), S(b), S(a), S(b))
    spec = 'function vf_extend_point\n  __CPROVER_requires(__CPROVER_is_fresh(o, 16) && %s && %s <= %s && %s <= %s)\n' % (wf, S('ax0'), S('ax1'), S('ay0'), S('ay1'))
    spec += '  __CPROVER_requires(%s && %s && %s && %s)\n' % (ok('qx', 'ax1'), ok('qy', 'ay1'), ok('ax0', 'qx'), ok('ay0', 'qy'))
    spec += '  __CPROVER_assigns(__CPROVER_object_whole(o))\n'
    spec += '  __CPROVER_ensures((i32)o[0] == %s && (i32)o[1] == %s && (i32)o[2] == %s && (i32)o[3] == %s)\n' % (mn('qx', 'ax0'), mn('qy', 'ay0'), mx('qx', 'ax1'), mx('qy', 'ay1'))
    spec += '  __CPROVER_ensures(VF_IMP(%s <= %s && %s < %s && %s <= %s && %s < %s, o[0] == ax0 && o[1] == ay0 && o[2] == ax1 && o[3] == ay1))\n' % (S('ax0'), S('qx'), S('qx'), S('ax1'), S('ay0'), S('qy'), S('qy'), S('ay1'))
    spec += 'function vf_center\n  __CPROVER_requires(__CPROVER_is_fresh(o, 8) && %s)\n  __CPROVER_assigns(__CPROVER_object_whole(o))\n' % wf
    spec += '  __CPROVER_ensures((i64)(i32)o[0] == %s + (%s - %s) / 2 && (i64)(i32)o[1] == %s + (%s - %s) / 2)\n' % (L('ax0'), L('ax1'), L('ax0'), L('ay0'), L('ay1'), L('ay0'))
    wfb = '%s && %s' % (ok('bx0', 'bx1'), ok('by0', 'by1'))
    # interval_distance as documented, written on 64-bit integers; requires: every difference it may form is representable
    def idist(a0, a1, b0, b1):
        # i1 = (a0,a1), i2 = (b0,b1); if a1 <= b1 swap
        f = lambda p0, p1, q0, q1: '(%s <= %s ? %s - %s : ((%s - %s) > (%s - %s) ? (%s - %s) : (%s - %s)))' % (L(q0), L(p0), L(p0), L(q1), L(q1), L(p1), L(p0), L(q0), L(q1), L(p1), L(p0), L(q0))
        return '(%s <= %s ? %s : %s)' % (L(a1), L(b1), f(b0, b1, a0, a1), f(a0, a1, b0, b1))
    small = ' && '.join('%s >= -1000000000LL && %s <= 1000000000LL' % (L(v), L(v)) for v in ('ax0', 'ay0', 'ax1', 'ay1', 'bx0', 'by0', 'bx1', 'by1'))
    spec += 'function vf_distance\n  __CPROVER_requires(__CPROVER_is_fresh(o, 24) && %s)\n  __CPROVER_assigns(__CPROVER_object_whole(o))\n' % small
    spec += '  __CPROVER_ensures((i64)(i32)o[0] == %s && (i64)(i32)o[1] == %s)\n' % (idist('ax0', 'ax1', 'bx0', 'bx1'), idist('ay0', 'ay1', 'by0', 'by1'))
    spec += '  __CPROVER_ensures(o[2] == ax0 && o[3] == ax1 && o[4] == ay0 && o[5] == ay1)\n'
    spec += 'function vf_box_structure_cast\n  __CPROVER_requires(__CPROVER_is_fresh(o, 48) && %s)\n  __CPROVER_assigns(__CPROVER_object_whole(o))\n' % wf
    spec += '  __CPROVER_ensures((i64)o[0] == %s && (i64)o[1] == %s && (i64)o[2] == %s && (i64)o[3] == %s && (i64)o[4] == %s - %s && (i64)o[5] == %s - %s)\n' % (L('ax0'), L('ay0'), L('ax1'), L('ay1'), L('ax1'), L('ax0'), L('ay1'), L('ay0'))
    P.generated['extra.cpp'] = shim
    P.generated['extra.spec'] = spec
    u = P.unit('extra', 'extra.cpp', specs=['extra.spec'], inline=True)
    u.contract('vf_extend_point', cls='P', backends=['sat', 'cvc5'], timeout=600, what='extend_bounding_box(box, point): the same box if the point is contained; otherwise the corners move just far enough to reach the point (pos = min(pos, point), max = max(max, point) per coordinate)')
    u.contract('vf_center', cls='P', backends=['sat', 'cvc5', 'z3'], timeout=600, what='center == pos + size / 2 per coordinate (integer division)')
    u.contract('vf_distance', cls='P', backends=['sat', 'cvc5'], timeout=600, what='box::distance is interval_distance per coordinate (negative overlap / shorter part as documented); box::interval<I> is (pos_I, max_I)')
    u.contract('vf_box_structure_cast', cls='P', backends=['sat', 'cvc5'], timeout=600, what='box structure_cast converts position and size per component')


def make_inst(P, N, tn, tt, sg, tier):
    tag = '%s_%d' % (tn, N)
    R = range(N)
    c = (lambda x: '((i32)%s)' % x) if sg else (lambda x: x)      # value of a u32 carrier as T
    wide = (lambda x: '((i64)(i32)%s)' % x) if sg else (lambda x: '((i64)%s)' % x)
    TMIN, TMAX = ('(-2147483648LL)', '2147483647LL') if sg else ('0LL', '4294967295LL')

    def params(b):
        return ', '.join('%s %smin%d, %s %smax%d' % (tt, b, i, tt, b, i) for i in R)

    def pt(p):
        return ', '.join('%s %s%d' % (tt, p, i) for i in R)

    def mk(b):
        return 'box{vec{%s}, vec{%s}}' % (', '.join('%smin%d' % (b, i) for i in R), ', '.join('%smax%d' % (b, i) for i in R))

    def mkp(p):
        return 'vec{%s}' % ', '.join('%s%d' % (p, i) for i in R)
    atc = 'x' if N >= 1 else ''
    acc = ['x()', 'y()', 'z()']
    shim = '''#include <fcppt/math/box/object.hpp>
#include <fcppt/math/box/contains_point.hpp>
#include <fcppt/math/box/contains.hpp>
#include <fcppt/math/box/intersects.hpp>
#include <fcppt/math/box/intersection.hpp>
#include <fcppt/math/box/extend_bounding_box.hpp>
#include <fcppt/math/box/corner_points.hpp>
#include <fcppt/math/box/shrink.hpp>
#include <fcppt/math/box/stretch_absolute.hpp>
#include <fcppt/math/box/null.hpp>
#include <fcppt/math/vector/static.hpp>
#include <fcppt/math/vector/at.hpp>
#include <fcppt/math/dim/static.hpp>
#include <fcppt/math/dim/at.hpp>
#include <fcppt/array/get.hpp>
using T = %(tt)s;
using box = fcppt::math::box::object<T, %(N)d>;
using vec = box::vector;
using dim = box::dim;
static inline void put(box const &b, T *out){ %(put)s }
#define X(n) n##_%(tag)s
extern "C" {
bool X(vf_contains_point)(%(A)s, %(Pp)s){ return fcppt::math::box::contains_point(%(mka)s, %(mkp)s); }
bool X(vf_intersects)(%(A)s, %(B)s){ return fcppt::math::box::intersects(%(mka)s, %(mkb)s); }
bool X(vf_contains)(%(A)s, %(B)s){ return fcppt::math::box::contains(%(mka)s, %(mkb)s); }
void X(vf_intersection)(%(A)s, %(B)s, %(Pp)s, T *out){ put(fcppt::math::box::intersection(%(mka)s, %(mkb)s), out); }
void X(vf_extend)(%(A)s, %(B)s, %(Pp)s, %(Cc)s, T *out){ put(fcppt::math::box::extend_bounding_box(%(mka)s, %(mkb)s), out); }
void X(vf_pos_size)(%(Pp)s, %(Ss)s, T *out, T *outsize){ box const b{%(mkp)s, dim{%(mks)s}}; put(b, out); auto const s = b.size(); %(putsize)s }
void X(vf_shrink)(%(A)s, %(Pp)s, T *out){ put(fcppt::math::box::shrink(%(mka)s, %(mkp)s), out); }
void X(vf_stretch)(%(A)s, %(Pp)s, T *out){ put(fcppt::math::box::stretch_absolute(%(mka)s, %(mkp)s), out); }
void X(vf_null)(T *out){ put(fcppt::math::box::null<box>(), out); }
void X(vf_corners)(%(A)s, T *out){ auto const cs = fcppt::math::box::corner_points(%(mka)s); unsigned k = 0; for (auto const &c : cs) { %(putcorner)s ++k; } }
}
''' % dict(tt=tt, N=N, tag=tag, A=params('a'), B=params('b'), Cc=params('c'), Pp=pt('p'), Ss=pt('s'), mka=mk('a'), mkb=mk('b'), mkp=mkp('p'),
           mks=', '.join('s%d' % i for i in R),
           put=' '.join('out[%d] = b.pos().%s; out[%d] = b.max().%s;' % (2 * i, acc[i], 2 * i + 1, acc[i]) for i in R),
           putsize=' '.join('outsize[%d] = fcppt::math::dim::at<%d>(s);' % (i, i) for i in R),
           putcorner=' '.join('out[k * %d + %d] = c.%s;' % (N, i, acc[i]) for i in R))
    # ---- spec macros (over the T-typed value of each carrier)
    IN = lambda p, b: '(' + ' && '.join('%s <= %s && %s < %s' % (c('%smin%d' % (b, i)), c('%s%d' % (p, i)), c('%s%d' % (p, i)), c('%smax%d' % (b, i))) for i in R) + ')'
    INO = lambda p: '(' + ' && '.join('%s <= %s && %s < %s' % (c('out[%d]' % (2 * i)), c('%s%d' % (p, i)), c('%s%d' % (p, i)), c('out[%d]' % (2 * i + 1))) for i in R) + ')'
    NE = lambda b: '(' + ' && '.join('%s < %s' % (c('%smin%d' % (b, i)), c('%smax%d' % (b, i))) for i in R) + ')'
    WFB = lambda b: '(' + ' && '.join('%s <= %s' % (c('%smin%d' % (b, i)), c('%smax%d' % (b, i))) for i in R) + ')'
    MAX = lambda x, y: '(%s > %s ? %s : %s)' % (x, y, x, y)
    MIN = lambda x, y: '(%s < %s ? %s : %s)' % (x, y, x, y)
    COMMON = '(' + ' && '.join('%s < %s' % (MAX(c('amin%d' % i), c('bmin%d' % i)), MIN(c('amax%d' % i), c('bmax%d' % i))) for i in R) + ')'
    SUBSET = lambda inner, outer: '(' + ' && '.join('%s <= %s && %s <= %s' % (c('%smin%d' % (outer, i)), c('%smin%d' % (inner, i)), c('%smax%d' % (inner, i)), c('%smax%d' % (outer, i))) for i in R) + ')'
    SUBSET_OUT_C = '(' + ' && '.join('%s <= %s && %s <= %s' % (c('cmin%d' % i), c('out[%d]' % (2 * i)), c('out[%d]' % (2 * i + 1)), c('cmax%d' % i)) for i in R) + ')'
    FRO = '__CPROVER_is_fresh(out, %d)' % (8 * N)
    OUT = '__CPROVER_object_whole(out)'
    spec = ''
    jobs = []

    def C(fn, req, ens, assigns, what):
        nonlocal spec
        f = '%s_%s' % (fn, tag)
        spec += 'function %s\n' % f
        for r in req:
            spec += '  __CPROVER_requires(%s)\n' % r
        spec += '  __CPROVER_assigns(%s)\n' % assigns
        for e in ens:
            spec += '  __CPROVER_ensures(%s)\n' % e
        jobs.append((f, what))
    C('vf_contains_point', [], ['__CPROVER_return_value == %s' % IN('p', 'a')], '', 'contains_point is membership in { p | pos <= p < max }')
    C('vf_intersects', [NE('a'), NE('b')], ['__CPROVER_return_value == %s' % COMMON], '', 'intersects (non-empty boxes) holds exactly when a common point exists')
    C('vf_contains', [WFB('a'), NE('b')], ['__CPROVER_return_value == %s' % SUBSET('b', 'a')], '', 'contains(outer, inner) for non-empty inner holds exactly when inner is a subset of outer')
    C('vf_intersection', [FRO, WFB('a'), WFB('b')],
      ['%s == (%s && %s)' % (INO('p'), IN('p', 'a'), IN('p', 'b')),
       'VF_IMP(%s && %s && !%s, %s)' % (NE('a'), NE('b'), COMMON, ' && '.join('out[%d] == 0' % i for i in range(2 * N))),
       ' && '.join('%s <= %s' % (c('out[%d]' % (2 * i)), c('out[%d]' % (2 * i + 1))) for i in R)], OUT,
      'intersection contains exactly the common points (for every point p, all boxes with min <= max) and is the null box when two non-empty boxes have no common point')
    C('vf_extend', [FRO, NE('a'), NE('b')],
      ['VF_IMP(%s || %s, %s)' % (IN('p', 'a'), IN('p', 'b'), INO('p')),
       'VF_IMP(%s && %s && %s, %s)' % (WFB('c'), SUBSET('a', 'c'), SUBSET('b', 'c'), SUBSET_OUT_C)], OUT,
      'extend_bounding_box(a, b) contains both boxes (every point p) and is contained in every box c containing both (smallest)')
    rep = ' && '.join('%s + %s >= %s && %s + %s <= %s' % (wide('p%d' % i), wide('s%d' % i), TMIN, wide('p%d' % i), wide('s%d' % i), TMAX) for i in R)
    C('vf_pos_size', [FRO, '__CPROVER_is_fresh(outsize, %d)' % (4 * N), rep],
      [' && '.join('out[%d] == p%d && %s == %s + %s && outsize[%d] == s%d' % (2 * i, i, wide('out[%d]' % (2 * i + 1)), wide('p%d' % i), wide('s%d' % i), i, i) for i in R)],
      OUT + ', __CPROVER_object_whole(outsize)', 'box(pos, size): pos() == pos, max() == pos + size, size() == size whenever pos + size is representable')
    repsh = ' && '.join('%s + %s >= %s && %s + %s <= %s && %s - %s >= %s && %s - %s <= %s' % (
        wide('amin%d' % i), wide('p%d' % i), TMIN, wide('amin%d' % i), wide('p%d' % i), TMAX, wide('amax%d' % i), wide('p%d' % i), TMIN, wide('amax%d' % i), wide('p%d' % i), TMAX) for i in R)
    C('vf_shrink', [FRO, repsh], [' && '.join('%s == %s + %s && %s == %s - %s' % (wide('out[%d]' % (2 * i)), wide('amin%d' % i), wide('p%d' % i), wide('out[%d]' % (2 * i + 1)), wide('amax%d' % i), wide('p%d' % i)) for i in R)], OUT,
      'shrink(b, v) is the point set [pos + v, max - v)')
    repst = ' && '.join('%s - %s >= %s && %s - %s <= %s && %s + %s >= %s && %s + %s <= %s' % (
        wide('amin%d' % i), wide('p%d' % i), TMIN, wide('amin%d' % i), wide('p%d' % i), TMAX, wide('amax%d' % i), wide('p%d' % i), TMIN, wide('amax%d' % i), wide('p%d' % i), TMAX) for i in R)
    C('vf_stretch', [FRO, repst], [' && '.join('%s == %s - %s && %s == %s + %s' % (wide('out[%d]' % (2 * i)), wide('amin%d' % i), wide('p%d' % i), wide('out[%d]' % (2 * i + 1)), wide('amax%d' % i), wide('p%d' % i)) for i in R)], OUT,
      'stretch_absolute(b, v) is the point set [pos - v, max + v)')
    C('vf_null', [FRO], [' && '.join('out[%d] == 0' % i for i in range(2 * N))], OUT, 'null box is the empty box at the origin')
    repc = ' && '.join('%s - %s >= %s && %s - %s <= %s' % (wide('amax%d' % i), wide('amin%d' % i), TMIN, wide('amax%d' % i), wide('amin%d' % i), TMAX) for i in R)
    C('vf_corners', ['__CPROVER_is_fresh(out, %d)' % (4 * N * (1 << N)), repc],
      [' && '.join('out[%d] == %s' % (k * N + i, ('amax%d' if (k >> i) & 1 else 'amin%d') % i) for k in range(1 << N) for i in R)], OUT,
      'corner_points are exactly the 2^N vertices {pos_i, max_i}^N, vertex k choosing max on axis i iff bit i of k is set')
    # ---- spec-only lemmas justifying the closed forms (no code under test: the macros against their witnesses)
    decl = lambda b: ' '.join('u32 %smin%d, %smax%d;' % (b, i, b, i) for i in R)
    declp = lambda p: ' '.join('u32 %s%d;' % (p, i) for i in R)
    harness = '''
void h_spec_common_%(tag)s(void){
  %(da)s %(db)s %(dp)s
  __CPROVER_assume(%(nea)s && %(neb)s);
  /* witness: w_i = max(amin_i, bmin_i) */
  %(wit)s
  __CPROVER_assert(VF_IMP(%(common)s, %(inwa)s && %(inwb)s), "COMMON(a,b) implies the witness point max(pos) lies in both boxes");
  __CPROVER_assert(VF_IMP(!%(common)s, !(%(inpa)s && %(inpb)s)), "not COMMON(a,b) implies no point p lies in both boxes");
  VF_PROBE();
}
void h_spec_subset_%(tag)s(void){
  %(da)s %(db)s %(dp)s
  __CPROVER_assume(%(wfa)s && %(neb)s);
  __CPROVER_assert(VF_IMP(%(subset)s && %(inpb)s, %(inpa)s), "SUBSET(inner,outer) implies every point of inner lies in outer");
  /* corner witness of inner outside outer when SUBSET fails */
  %(witsub)s
  __CPROVER_assert(VF_IMP(!%(subset)s, %(inwb)s && !%(inwa)s), "not SUBSET(inner,outer) implies a point of inner outside outer");
  VF_PROBE();
}
''' % dict(tag=tag, da=decl('a'), db=decl('b'), dp=declp('p'), nea=NE('a'), neb=NE('b'), wfa=WFB('a'), common=COMMON,
           wit=' '.join('u32 w%d = %s;' % (i, MAX(c('amin%d' % i), c('bmin%d' % i)).replace('(i32)', '(i32)')) for i in R) if not sg else ' '.join('u32 w%d = (u32)%s;' % (i, MAX(c('amin%d' % i), c('bmin%d' % i))) for i in R),
           inwa=IN('w', 'a'), inwb=IN('w', 'b'), inpa=IN('p', 'a'), inpb=IN('p', 'b'), subset=SUBSET('b', 'a'),
           witsub=witsub(N, c))
    P.generated['box_%s.cpp' % tag] = shim
    P.generated['box_%s.spec' % tag] = spec
    P.generated['box_%s_h.c' % tag] = harness
    u = P.unit(tag, 'box_%s.cpp' % tag, specs=['box_%s.spec' % tag], harness=['box_%s_h.c' % tag], inline=True)
    for f, what in jobs:
        u.contract(f, cls='P', backends=['sat', 'cvc5'], what=what, timeout=900)
    u.lemma('h_spec_common_%s' % tag, cls='P', backends=['sat', 'cvc5'], native=False, what='spec lemma: the closed form COMMON is equivalent to the existence of a common lattice point (explicit witness / symbolic point)')
    u.lemma('h_spec_subset_%s' % tag, cls='P', backends=['sat', 'cvc5'], native=False, what='spec lemma: the closed form SUBSET is equivalent to point-set inclusion for a non-empty inner box (symbolic point / corner witness)')


def witsub(N, c):
    """pick the first failing axis i of SUBSET(b in a): witness w = bmin everywhere, except w_i = bmax_i - 1 when only the upper bound fails"""
    R = range(N)
    s = ' '.join('u32 w%d = bmin%d;' % (i, i) for i in R)
    # lower-bound failure on some axis: w = bmin works (bmin_i < amin_i). otherwise first axis with bmax_i > amax_i: w_i = bmax_i - 1
    anylow = ' || '.join('%s < %s' % (c('bmin%d' % i), c('amin%d' % i)) for i in R)
    s += ' if (!(%s)) {' % anylow
    for i in R:
        prev = ' && '.join('!(%s > %s)' % (c('bmax%d' % j), c('amax%d' % j)) for j in range(i)) or '1'
        s += ' if (%s && %s > %s) w%d = bmax%d - 1;' % (prev, c('bmax%d' % i), c('amax%d' % i), i, i)
    s += ' }'
    return s
