u64 vf_dist_draw(u64 a, u64 b, void *rng){ l_a = a; l_b = b; if (rng != (void *)vf_engine_addr()) rng_ok = 0; return __CPROVER_uninterpreted_draw(c_draw++, a, b); }
void vf_dist_ctor(void){ ++c_ctor; } void vf_dist_copy(void){ ++c_copy; } void vf_dist_assign(void){ ++c_assign; } void vf_dist_param(void){ ++c_param; } void vf_dist_reset(void){ ++c_reset; }
u32 vf_eng_draw(void *self){ return __CPROVER_uninterpreted_eng(c_eng++); }
void vf_eng_seed(u32 s){ ++c_seed; l_seed = s; }
