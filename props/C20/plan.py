"""C20 - random wrappers are transparent and stay within the requested bounds."""
from vf.plan import Plan

STD = 'assumed: std::uniform_int_distribution / uniform_real_distribution / normal_distribution::operator() and the std engines are not verified here (rejection-sampling loops, 624-word engine state); in particular "a <= result <= b" and "reaches both ends" are properties of the wrapped std distribution given exactly the parameters proved below'
D = lambda k, a, b: '__CPROVER_uninterpreted_draw(%s, (u64)(i64)(i32)%s, (u64)(i64)(i32)%s)' % (k, a, b)
O = lambda c: 'c_%s == __CPROVER_old(c_%s)' % (c, c)
G = ['c_draw', 'c_ctor', 'c_copy', 'c_assign', 'c_param', 'c_reset', 'c_eng', 'c_seed', 'l_a', 'l_b', 'l_seed', 'rng_ok', 'g_engine_addr']
C = {}
C['vf_basic_draw'] = ([], G, ['__CPROVER_return_value == (u32)%s' % D('__CPROVER_old(c_draw)', 'a', 'b'), 'c_draw == __CPROVER_old(c_draw) + 1', 'rng_ok == __CPROVER_old(rng_ok)', 'c_ctor == __CPROVER_old(c_ctor) + 1', O('param'), O('assign')],
                      'distribution::basic: constructed with exactly the given parameters; one call draws exactly once from the wrapped distribution with the caller\'s generator and returns that value')
C['vf_basic_draw_t1t2'] = C['vf_basic_draw'][:3] + ('distribution::basic(t1, t2) constructor: same',)
C['vf_variate_draw3'] = (['__CPROVER_is_fresh(out, 12)'], G + ['__CPROVER_object_whole(out)'],
                         ['out[0] == (u32)%s && out[1] == (u32)%s && out[2] == (u32)%s' % (D('__CPROVER_old(c_draw)', 'a', 'b'), D('__CPROVER_old(c_draw) + 1', 'a', 'b'), D('__CPROVER_old(c_draw) + 2', 'a', 'b')),
                          'c_draw == __CPROVER_old(c_draw) + 3', 'rng_ok == __CPROVER_old(rng_ok)', O('param'), O('assign')],
                         'variate: successive calls yield exactly the successive values the wrapped distribution produces from the wrapped engine with the same parameters')
C['vf_variate_param_draw'] = (['__CPROVER_is_fresh(out, 8)'], G + ['__CPROVER_object_whole(out)'],
                              ['out[0] == (u32)%s && out[1] == (u32)%s' % (D('__CPROVER_old(c_draw)', 'a', 'b'), D('__CPROVER_old(c_draw) + 1', 'a', 'b')), 'rng_ok == __CPROVER_old(rng_ok)'],
                              'variate(generator, parameters): same sequence')
C['vf_basic_set_param_draw'] = ([], G, ['__CPROVER_return_value == (u32)%s' % D('__CPROVER_old(c_draw)', 'c', 'd2'), 'c_param == __CPROVER_old(c_param) + 1', 'c_ctor == __CPROVER_old(c_ctor) + 1', O('assign'), O('copy'), O('reset')],
                                'basic::param(p) hands the new parameters to the wrapped distribution\'s own param() (once) and does not rebuild, copy or reset the wrapped object (its internal state is kept); the next draw uses the new parameters')
C['vf_basic_minmax'] = (['__CPROVER_is_fresh(omin, 4) && __CPROVER_is_fresh(omax, 4) && __CPROVER_is_fresh(oa, 4) && __CPROVER_is_fresh(ob, 4)'], G + ['*omin', '*omax', '*oa', '*ob'],
                        ['*omin == a && *omax == b && *oa == a && *ob == b', O('draw')], 'basic::min/max/distribution() expose the wrapped distribution with exactly the given bounds')
C['vf_basic_reset'] = ([], G, ['c_reset == __CPROVER_old(c_reset) + 1', O('draw')], 'basic::reset forwards')
C['vf_strong_draw'] = ([], G, ['__CPROVER_return_value == (u32)%s' % D('__CPROVER_old(c_draw)', 'a', 'b'), 'c_draw == __CPROVER_old(c_draw) + 1'], 'strong-typedef result type: the wrapped value re-wrapped (type_iso), parameters undecorated exactly')
C['vf_enum_draw'] = (['a <= 4 && b <= 4'], G, ['__CPROVER_return_value == (u32)%s' % D('__CPROVER_old(c_draw)', 'a', 'b'), 'c_draw == __CPROVER_old(c_draw) + 1'], 'enum result type: the wrapped integer converted to the enum, parameters converted exactly')
C['vf_enum_params'] = (['__CPROVER_is_fresh(oa, 4) && __CPROVER_is_fresh(ob, 4)'], ['*oa', '*ob'], ['*oa == 0 && *ob == 4'], 'make_uniform_enum_advanced: the closed interval [0, size-1] = every enumerator')
C['vf_indices'] = (['__CPROVER_is_fresh(oa, 8) && __CPROVER_is_fresh(ob, 8)'], ['*oa', '*ob'], ['__CPROVER_return_value == (n != 0)', 'VF_IMP(n != 0, *oa == 0 && *ob == (u64)n - 1)'],
                   'make_uniform_indices_advanced: nothing for an empty container, otherwise the closed interval [0, size-1]')
C['vf_uniform_container'] = (['%s <= 3' % '__CPROVER_uninterpreted_draw(c_draw, 0, 3)'], G + ['__CPROVER_object_whole(&g_arr)'],
                             ['(u64)__CPROVER_return_value == __CPROVER_uninterpreted_draw(__CPROVER_old(c_draw), 0, 3)', 'c_draw == __CPROVER_old(c_draw) + 1', 'l_a == 0 && l_b == 3'],
                             'uniform_container: index distribution is exactly [0, size-1]; the result is the element at the drawn index (every access inside the container is a pointer-check obligation)')
C['vf_uniform_container_empty'] = ([], G, ['__CPROVER_return_value == 0', O('ctor')], 'make_uniform_container_advanced: nothing for an empty container, no distribution constructed')
C['vf_std_uniform_int'] = (['__CPROVER_is_fresh(oa, 4) && __CPROVER_is_fresh(ob, 4)', '(i32)a <= (i32)b'], ['*oa', '*ob'], ['*oa == a && *ob == b'], 'parameters::uniform_int<int>::convert_from builds the std param_type with exactly (min, max)')
C['vf_std_uniform_int_long'] = (['__CPROVER_is_fresh(oa, 8) && __CPROVER_is_fresh(ob, 8)', '(i64)a <= (i64)b'], ['*oa', '*ob'], ['*oa == a && *ob == b'], 'parameters::uniform_int<long>::convert_from: exact')
C['vf_std_uniform_real'] = (['__CPROVER_is_fresh(oa, 8) && __CPROVER_is_fresh(ob, 8)', 'a < b'], ['*oa', '*ob'], ['*oa == a && *ob == b'], 'parameters::uniform_real<double>::convert_from builds the std param_type with exactly (min, sup)')
C['vf_std_normal'] = (['__CPROVER_is_fresh(om, 8) && __CPROVER_is_fresh(os, 8)', 's > 0.0 && m == m'], ['*om', '*os'], ['*om == m && *os == s'], 'parameters::normal<double>::convert_from builds the std param_type with exactly (mean, stddev)')
C['vf_pseudo'] = (['__CPROVER_is_fresh(omin, 4) && __CPROVER_is_fresh(omax, 4) && __CPROVER_is_fresh(o1, 4) && __CPROVER_is_fresh(o2, 4)'], G + ['*omin', '*omax', '*o1', '*o2'],
                  ['*omin == 7 && *omax == 4000000000u', '*o1 == __CPROVER_uninterpreted_eng(__CPROVER_old(c_eng)) && *o2 == __CPROVER_uninterpreted_eng(__CPROVER_old(c_eng) + 1)', 'c_seed == __CPROVER_old(c_seed) + 1 && l_seed == seed'],
                  'generator::basic_pseudo: seeds the wrapped engine once with the given seed, forwards min()/max() and every draw')
C['vf_pseudo_std'] = (['__CPROVER_is_fresh(mmin, 8) && __CPROVER_is_fresh(mmax, 8) && __CPROVER_is_fresh(tmin, 8) && __CPROVER_is_fresh(tmax, 8)'], ['*mmin', '*mmax', '*tmin', '*tmax'],
                      ['*mmin == 1 && *mmax == 2147483646 && *tmin == 0 && *tmax == 4294967295ul'], 'basic_pseudo<std::minstd_rand / std::mt19937>::min()/max() are the engines\' own bounds')


def make(tier):
    P = Plan('C20', level='proof', design_ref='DESIGN.md section 5 C20')
    P.assumptions.append(STD)
    P.meta += ['fcppt::random::distribution::basic / variate are templates over the wrapped distribution and engine; the contracts are proved for an abstract wrapped distribution (every draw an uninterpreted function of the draw index and the current parameters) and an abstract engine, so they hold for every wrapped distribution, in particular the std ones: a variate yields exactly the sequence the wrapped distribution yields from the wrapped engine with the same parameters, re-wrapped']
    P.not_decided += ['the std distributions and engines themselves (assumed)', 'basic::param() getter and operator()(rng, param): do not instantiate (Parameters::convert_to takes a distribution, make_result is called with two arguments) - they cannot be called by any program', 'stream operators << >>']
    spec = ''
    for f, (req, asg, ens, what) in C.items():
        spec += 'function %s\n' % f
        for r in req:
            spec += '  __CPROVER_requires(%s)\n' % r
        spec += '  __CPROVER_assigns(%s)\n' % ', '.join(asg)
        for e in ens:
            spec += '  __CPROVER_ensures(%s)\n' % e
    P.generated['c20.spec'] = spec
    u = P.unit('c20', 'shim.cpp', specs=['c20.spec'], harness=['harness.c'], pre=['ghost.h'], inline=True)
    for f, (req, asg, ens, what) in C.items():
        u.contract(f, cls='P', backends=['sat', 'cvc5'], what=what, native=False, timeout=600, assumed=[STD])
    return P
