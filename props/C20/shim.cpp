// C20 shim: the real fcppt random wrappers over (a) an ABSTRACT wrapped distribution / engine whose members are harness
// hooks (uninterpreted draws + ghost counters) - fcppt's documented customisation point uniform_int<T, Distribution> -
// and (b) the concrete std parameter types (loop-free accessors only).
#include <fcppt/random/variate.hpp>
#include <fcppt/random/distribution/basic.hpp>
#include <fcppt/random/distribution/make_basic.hpp>
#include <fcppt/random/distribution/parameters/uniform_int.hpp>
#include <fcppt/random/distribution/parameters/uniform_real.hpp>
#include <fcppt/random/distribution/parameters/normal.hpp>
#include <fcppt/random/distribution/parameters/make_uniform_enum_advanced.hpp>
#include <fcppt/random/distribution/parameters/make_uniform_indices_advanced.hpp>
#include <fcppt/random/wrapper/uniform_container.hpp>
#include <fcppt/random/wrapper/make_uniform_container_advanced.hpp>
#include <fcppt/random/generator/basic_pseudo_decl.hpp>
#include <fcppt/random/generator/basic_pseudo_impl.hpp>
#include <fcppt/make_strong_typedef.hpp>
#include <fcppt/strong_typedef.hpp>
#include <fcppt/type_iso/strong_typedef.hpp>
#include <fcppt/type_iso/enum.hpp>
#include <fcppt/make_ref.hpp>
#include <array>
#include <random>
extern "C" {
long vf_dist_draw(long a, long b, void const *rng);   // one draw of the wrapped distribution with its current parameters
void vf_dist_ctor(void); void vf_dist_copy(void); void vf_dist_assign(void); void vf_dist_param(void); void vf_dist_reset(void);
unsigned vf_eng_draw(void const *self); void vf_eng_seed(unsigned);
}
template <typename T> struct abs_dist {
  using result_type = T;
  struct param_type { T a_, b_; param_type(T a, T b) : a_(a), b_(b) {} T a() const { return a_; } T b() const { return b_; } };
  explicit abs_dist(param_type const &p) : p_(p) { vf_dist_ctor(); }
  abs_dist(abs_dist const &o) : p_(o.p_) { vf_dist_copy(); }
  abs_dist &operator=(abs_dist const &o) { p_ = o.p_; vf_dist_assign(); return *this; }
  T a() const { return p_.a_; } T b() const { return p_.b_; }
  param_type param() const { return p_; }
  void param(param_type const &p) { p_ = p; vf_dist_param(); }
  template <typename R> T operator()(R &r) { return static_cast<T>(vf_dist_draw(static_cast<long>(p_.a_), static_cast<long>(p_.b_), &r)); }
  T min() const { return p_.a_; } T max() const { return p_.b_; } void reset() { vf_dist_reset(); }
  param_type p_;
};
struct abs_wrapper { template <typename T> struct apply { using type = abs_dist<T>; }; };
struct abs_engine {
  using result_type = unsigned;
  explicit abs_engine(unsigned s) { vf_eng_seed(s); }
  static constexpr unsigned min() { return 7U; } static constexpr unsigned max() { return 4000000000U; }
  unsigned operator()() { return vf_eng_draw(this); }
};
FCPPT_MAKE_STRONG_TYPEDEF(int, strong_int);
enum class e5 { v0, v1, v2, v3, v4, fcppt_maximum = v4 };
namespace rd = fcppt::random::distribution;
using p_int = rd::parameters::uniform_int<int, abs_wrapper>;
using p_st = rd::parameters::uniform_int<strong_int, abs_wrapper>;
using p_en = rd::parameters::uniform_int<e5, abs_wrapper>;
using d_int = rd::basic<p_int>;
extern "C" {
abs_engine *g_engine_addr;
void const *vf_engine_addr(void){ return g_engine_addr; }
int vf_basic_draw(int a, int b){ abs_engine e{1U}; g_engine_addr = &e; d_int d{p_int{p_int::min{a}, p_int::max{b}}}; return d(e); }
int vf_basic_draw_t1t2(int a, int b){ abs_engine e{1U}; g_engine_addr = &e; d_int d{p_int::min{a}, p_int::max{b}}; return d(e); }
void vf_variate_draw3(int a, int b, int *out){ abs_engine e{1U}; g_engine_addr = &e;
  fcppt::random::variate<abs_engine, d_int> v{fcppt::make_ref(e), d_int{p_int{p_int::min{a}, p_int::max{b}}}}; out[0] = v(); out[1] = v(); out[2] = v(); }
void vf_variate_param_draw(int a, int b, int *out){ abs_engine e{1U}; g_engine_addr = &e;
  fcppt::random::variate<abs_engine, d_int> v{fcppt::make_ref(e), p_int{p_int::min{a}, p_int::max{b}}}; out[0] = v(); out[1] = v(); }
int vf_basic_set_param_draw(int a, int b, int c, int d2){ abs_engine e{1U}; g_engine_addr = &e; d_int d{p_int{p_int::min{a}, p_int::max{b}}}; d.param(p_int{p_int::min{c}, p_int::max{d2}}); return d(e); }
void vf_basic_minmax(int a, int b, int *omin, int *omax, int *oa, int *ob){ d_int const d{p_int{p_int::min{a}, p_int::max{b}}}; *omin = d.min(); *omax = d.max(); *oa = d.distribution().a(); *ob = d.distribution().b(); }
void vf_basic_reset(int a, int b){ d_int d{p_int{p_int::min{a}, p_int::max{b}}}; d.reset(); }
int vf_strong_draw(int a, int b){ abs_engine e{1U}; g_engine_addr = &e; rd::basic<p_st> d{p_st{p_st::min{strong_int{a}}, p_st::max{strong_int{b}}}}; return d(e).get(); }
int vf_enum_draw(int a, int b){ abs_engine e{1U}; g_engine_addr = &e; rd::basic<p_en> d{p_en{p_en::min{static_cast<e5>(a)}, p_en::max{static_cast<e5>(b)}}}; return static_cast<int>(d(e)); }
void vf_enum_params(int *oa, int *ob){ auto const p = rd::parameters::make_uniform_enum_advanced<abs_wrapper, e5>(); auto const w = p.convert_from(); *oa = w.a(); *ob = w.b(); }
bool vf_indices(unsigned n, unsigned long *oa, unsigned long *ob){
  struct cont { using size_type = unsigned long; unsigned long n_; bool empty() const { return n_ == 0; } unsigned long size() const { return n_; } } const c{n};
  auto const r = rd::parameters::make_uniform_indices_advanced<abs_wrapper>(c);
  if (!r.has_value()) return false; auto const w = r.get_unsafe().convert_from(); *oa = w.a(); *ob = w.b(); return true; }
// uniform_container over a 4-element std::array: the drawn index selects the element
std::array<int, 4> g_arr;
long vf_uniform_container(int x0, int x1, int x2, int x3){ abs_engine e{1U}; g_engine_addr = &e; g_arr = {x0, x1, x2, x3};
  auto r = fcppt::random::wrapper::make_uniform_container_advanced<abs_wrapper>(fcppt::make_ref(g_arr));
  if (!r.has_value()) return -1; int &ref = r.get_unsafe()(e); return &ref - g_arr.data(); }
bool vf_uniform_container_empty(void){ std::array<int, 0> a{}; auto r = fcppt::random::wrapper::make_uniform_container_advanced<abs_wrapper>(fcppt::make_ref(a)); return r.has_value(); }
// concrete std parameter types (no draws)
void vf_std_uniform_int(int a, int b, int *oa, int *ob){ using p = rd::parameters::uniform_int<int>; auto const w = p{p::min{a}, p::max{b}}.convert_from(); *oa = w.a(); *ob = w.b(); }
void vf_std_uniform_int_long(long a, long b, long *oa, long *ob){ using p = rd::parameters::uniform_int<long>; auto const w = p{p::min{a}, p::max{b}}.convert_from(); *oa = w.a(); *ob = w.b(); }
void vf_std_uniform_real(double a, double b, double *oa, double *ob){ using p = rd::parameters::uniform_real<double>; auto const w = p{p::min{a}, p::sup{b}}.convert_from(); *oa = w.a(); *ob = w.b(); }
void vf_std_normal(double m, double s, double *om, double *os){ using p = rd::parameters::normal<double>; auto const w = p{p::mean{m}, p::stddev{s}}.convert_from(); *om = w.mean(); *os = w.stddev(); }
// engine wrapper
using pseudo = fcppt::random::generator::basic_pseudo<abs_engine>;
void vf_pseudo(unsigned seed, unsigned *omin, unsigned *omax, unsigned *o1, unsigned *o2){ pseudo g{pseudo::seed{seed}}; *omin = pseudo::min(); *omax = pseudo::max(); *o1 = g(); *o2 = g(); }
void vf_pseudo_std(unsigned long *mmin, unsigned long *mmax, unsigned long *tmin, unsigned long *tmax){
  *mmin = fcppt::random::generator::basic_pseudo<std::minstd_rand>::min(); *mmax = fcppt::random::generator::basic_pseudo<std::minstd_rand>::max();
  *tmin = fcppt::random::generator::basic_pseudo<std::mt19937>::min(); *tmax = fcppt::random::generator::basic_pseudo<std::mt19937>::max(); }
}
