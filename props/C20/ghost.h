/* C20 ghost state: the abstract wrapped distribution / engine */
u64 __CPROVER_uninterpreted_draw(u64 k, u64 a, u64 b);   /* k-th draw of the wrapped distribution with parameters (a, b) */
u32 __CPROVER_uninterpreted_eng(u64 k);                 /* k-th output of the engine */
static unsigned c_draw, c_ctor, c_copy, c_assign, c_param, c_reset, c_eng, c_seed; static u64 l_a, l_b; static u32 l_seed; static _Bool rng_ok = 1;
