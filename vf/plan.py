"""Plan description API used by props/<id>/plan.py.

A plan is a list of *units* (one shim translation unit -> LLVM IR -> generated C)
and, per unit, a list of *jobs*:

  contract job  - enforce the contract attached (sidecar .spec) to one function of
                  the generated C with `goto-instrument --dfcc --enforce-contract`;
                  the harness (symbolic arguments, call, reachability probe) is
                  generated from the function's prototype.
  lemma job     - a hand-written harness function (props/<id>/*.c) whose assertions
                  are the obligations; callees may be replaced by their contracts.

Obligation classes (DESIGN.md section 4): P proved unbounded, W complete by width
(unwinding assertions), B bounded stand-in, never counted as proved.
"""


class Job:
    def __init__(self, unit, kind, name, target, **kw):
        self.unit = unit
        self.kind = kind            # 'contract' | 'lemma'
        self.name = name            # unique job name within the property
        self.target = target        # function (demangled / C name) or harness function
        self.cls = kw.pop('cls', 'P')
        self.replace = list(kw.pop('replace', []))
        self.loops = kw.pop('loops', False)        # apply loop contracts
        self.unwind = kw.pop('unwind', None)       # W/B jobs
        self.backends = list(kw.pop('backends', ['sat', 'cvc5', 'z3']))
        self.stagger = kw.pop('stagger', 15)
        self.timeout = kw.pop('timeout', 600)
        self.tier = kw.pop('tier', 'quick')        # 'quick' (both tiers) | 'thorough'
        self.bound = kw.pop('bound', '')           # text describing the bound for W/B
        self.what = kw.pop('what', '')             # human text: what this obligation set says
        self.defines = list(kw.pop('defines', []))
        self.extra_cbmc = list(kw.pop('cbmc', []))
        self.expect_noprobe = kw.pop('noprobe', False)
        self.native = kw.pop('native', True)       # try a native replay on failure
        self.assumed = list(kw.pop('assumed', []))  # text: assumptions specific to this job
        self.mem = kw.pop('mem', 12)               # GB address-space limit
        self.nondet_static = kw.pop('nondet_static', False)
        self.expected = list(kw.pop('expected', []))   # obligations whose FAILURE is the documented behaviour (e.g. a documented throw): they MUST fail
        self.dfcc = kw.pop('dfcc', True)            # contract jobs: False = check the same requires/ensures by a generated assume/call/assert harness (no --dfcc write-set instrumentation, no frame check) - for pointer-heavy code where --dfcc does not close
        self.unwind_files = dict(kw.pop('unwind_files', {}))   # {substring of the loop's source file or loop id: bound} -> --unwindset for exactly those loops
        self.optional = kw.pop('optional', False)   # an attempt: a timeout is reported as undecided in the evidence but does not fail the check
        if kw:
            raise TypeError('unknown job options %r' % kw)


class Unit:
    def __init__(self, plan, name, shim, specs=(), harness=(), sroa=False, inline=False, ufmul=False, pre=(), defines=(), srcs=(), maxb=32, tier='quick'):
        self.plan = plan
        self.name = name
        self.shim = shim              # path relative to props/<id>/ (C++ TU including the real headers)
        self.specs = list(specs)
        self.harness = list(harness)  # C files #included after the generated C
        self.pre = list(pre)          # C files #included before the generated C (ghost state named in contracts)
        self.sroa = sroa or inline   # IR is post-processed by opt
        self.inline = inline         # -O1 -disable-llvm-passes, then opt -passes=inline,sroa,mem2reg (loop-free shim-level contracts)
        self.defines = list(defines) + (['VF_UFMUL'] if ufmul else [])
        self.ufmul = ufmul
        self.srcs = list(srcs)        # extra /repo .cpp files compiled into the same module
        self.maxb = maxb
        self.tier = tier
        self.jobs = []

    def contract(self, fn, name=None, **kw):
        j = Job(self, 'contract', name or fn, fn, **kw)
        self.jobs.append(j)
        return j

    def lemma(self, harness_fn, name=None, **kw):
        j = Job(self, 'lemma', name or harness_fn, harness_fn, **kw)
        self.jobs.append(j)
        return j


class Plan:
    def __init__(self, pid, level='proof', design_ref='', title=''):
        self.pid = pid
        self.level = level
        self.design_ref = design_ref
        self.title = title
        self.units = []
        self.assumptions = []     # property-wide assumptions (strings)
        self.not_decided = []     # parts of the property not decided by this check
        self.meta = []            # M: induction principles stated, not machine-checked
        self.generated = {}       # filename -> text: files the plan generates into the build dir
        self.workers = None       # cap on parallel jobs (memory-heavy properties)

    def unit(self, name, shim, **kw):
        u = Unit(self, name, shim, **kw)
        self.units.append(u)
        return u
