"""Verdicts, evidence, replay files, native replay, known findings."""
import os, re, json, time, subprocess, shutil, sys

VERIF = os.path.dirname(os.path.dirname(os.path.abspath(__file__)))
REPO = os.environ.get('VF_REPO', '/repo')
INC = ['libs/core/include', 'libs/parse/include', 'libs/options/include', 'libs/options/impl/include', 'libs/log/include', 'libs/log/impl/include',
       'libs/filesystem/include', 'libs/boost/include', 'libs/catch/include', '_build/include']

EXTRACTION_DROPS = [
    'verified text = C printed mechanically by /verif/bin/ir2c from the LLVM IR that clang++-14 -O0 produces from /repo\'s current headers/sources on every run (template instantiation, overload resolution, conversions are the compiler\'s)',
    'extraction drops: exception unwinding (invoke = call + normal edge; landing pads are assume(false); a throw/terminate site is an assertion "exception or termination")',
    'extraction drops: parameter/return attributes, TBAA, lifetime markers (use-after-scope of stack temporaries not detected), inbounds on never-dereferenced GEPs',
    'undef/poison are nondeterministic values; atomics are sequential loads/stores; volatile ignored',
    'operator new = malloc that never fails; constant-size memcpy/memmove/memset = CBMC built-ins; symbolic-size = byte-loop model with stated bound (trusted models)',
    'compiler: clang 14 -O0 (evaluation order fixed to clang\'s); the shipped build uses g++ 12 -O2; compiler bugs out of scope',
    'IR post-processing where a unit asks for it: opt -passes=sroa,mem2reg (alloca promotion only) or inline,sroa,mem2reg (function inlining first; the inliner prunes blocks that are unreachable after constant propagation, it removes no reachable potentially-trapping instruction) - used for loop-free shim-level contracts to keep the formula small',
    'machine integers are bit-vectors of their real width (no mathematical-integer abstraction)',
]


def load_findings():
    p = os.path.join(VERIF, 'known_findings.txt')
    out = []
    if not os.path.exists(p):
        return out
    for l in open(p):
        l = l.strip()
        if not l or l.startswith('#'):
            continue
        m = re.match(r'finding:\s+property=(\S+)\s+job=(\S+)\s+obligation="([^"]*)"\s*(.*)', l)
        if m:
            out.append({'property': m.group(1), 'job': m.group(2), 'obligation': m.group(3), 'text': m.group(4)})
    return out


def parse_spec(path):
    """same format as ir2c's sidecar: returns {function key: [clauses]}"""
    res = {}
    cur = None
    inloop = False
    for l in open(path):
        l = l.rstrip('\n')
        if not l or l.startswith('#'):
            continue
        if l.startswith('function '):
            cur = l[9:]
            res[cur] = []
            inloop = False
            continue
        t = l.strip()
        if t.startswith('loop '):
            inloop = True
            continue
        if cur is not None and not inloop:
            res[cur].append(t)
    return res


def balanced(s, i):
    """s[i] == '(' -> index after the matching ')'"""
    d = 0
    for k in range(i, len(s)):
        if s[k] == '(':
            d += 1
        elif s[k] == ')':
            d -= 1
            if d == 0:
                return k + 1
    raise ValueError('unbalanced')


def clause_body(c, kw):
    assert c.startswith(kw + '(')
    return c[len(kw) + 1:balanced(c, len(kw)) - 1]


def native_contract_main(j, clauses, inputs):
    f = j.fn
    lines = ['#include "vf_native.h"', '#include "types.h"', 'int main(void){', '  int vf_fail = 0;']
    for i, p in enumerate(f['params']):
        v = inputs.get('a%d' % i)
        t = p['type']
        if t.endswith('*'):
            lines.append('  %s %s = 0;' % (t, p['name']))
        elif v is None:
            lines.append('  %s %s; memset(&%s, 0, sizeof %s);' % (t, p['name'], p['name'], p['name']))
        else:
            lines.append('  %s %s = (%s)%s;' % (t, p['name'], t, v))
    olds = []
    ens = []
    for c in clauses:
        if c.startswith('__CPROVER_requires('):
            b = clause_body(c, '__CPROVER_requires')
            lines.append('  if (!(%s)) { printf("PRECONDITION-NOT-MET: %%s\\n", %s); return 3; }' % (b, json.dumps(b)))
        elif c.startswith('__CPROVER_ensures('):
            b = clause_body(c, '__CPROVER_ensures')
            while '__CPROVER_old(' in b:
                k = b.index('__CPROVER_old(')
                e = balanced(b, k + len('__CPROVER_old'))
                inner = b[k + len('__CPROVER_old('):e - 1]
                nm = 'vf_old_%d' % len(olds)
                olds.append((nm, inner))
                b = b[:k] + nm + b[e:]
            ens.append(b)
    for nm, inner in olds:
        lines.append('  __typeof__(%s) %s = (%s);' % (inner, nm, inner))
    args = ', '.join(p['name'] for p in f['params'])
    if f['ret'] == 'void':
        lines.append('  %s(%s);' % (f['cname'], args))
    else:
        lines.append('  %s vf_ret = %s(%s);' % (f['ret'], f['cname'], args))
    for b in ens:
        lines.append('  if (!(%s)) { printf("ENSURES-FAILED: %%s\\n", %s); vf_fail = 1; }' % (b, json.dumps(b)))
    lines.append('  if (!vf_fail) printf("NATIVE-OK: contract holds on this input\\n");')
    lines.append('  return vf_fail;')
    lines.append('}')
    return '\n'.join(lines) + '\n'


def run(cmd, timeout=600, cwd=None):
    p = subprocess.run(cmd, stdout=subprocess.PIPE, stderr=subprocess.STDOUT, timeout=timeout, cwd=cwd)
    return p.returncode, p.stdout.decode('utf-8', 'replace')


def native_replay(plan, j, inputs, rdir):
    """compile the same shim natively with sanitizers and run the contract / lemma harness on the counterexample.
    returns (reproduced: bool|None, transcript)"""
    u = j.unit
    pdir = os.path.join(VERIF, 'props', plan.pid)
    os.makedirs(rdir, exist_ok=True)
    incs = []
    for i in INC:
        incs += ['-I', os.path.join(REPO, i)]
    incs += ['-I', pdir, '-I', os.path.join(VERIF, 'include'), '-I', u.dir]
    shim = os.path.join(u.dir, u.shim) if u.shim in plan.generated else os.path.join(pdir, u.shim)
    log = []
    # types.h: type definitions and prototypes of the generated C (layout-identical to the C++ objects)
    rc, out = run([os.path.join(VERIF, 'bin', 'ir2c'), os.path.join(u.dir, 'shim.ll' + ('.opt' if u.sroa else '')), '-o', os.path.join(rdir, 'gen_unused.c'), '-hdr', os.path.join(rdir, 'types.h')])
    if rc != 0:
        return None, 'ir2c -hdr failed: ' + out[-800:]
    try:
        os.remove(os.path.join(rdir, 'gen_unused.c'))
    except OSError:
        pass
    if j.kind == 'contract':
        clauses = None
        for s in u.specs:
            sp = os.path.join(u.dir, s) if s in plan.generated else os.path.join(pdir, s)
            d = parse_spec(sp)
            for k in d:
                if k in (j.fn['demangled'], j.fn['name'], j.fn['cname']):
                    clauses = d[k]
        if clauses is None:
            return None, 'no contract text found for native replay'
        if any('__CPROVER_uninterpreted' in c or '__CPROVER_forall' in c or '__CPROVER_exists' in c for c in clauses):
            return None, 'contract uses uninterpreted/quantified terms: not natively evaluable'
        src = native_contract_main(j, clauses, inputs)
    else:
        src = '#include "vf_native.h"\n#include "types.h"\n'
        src += ''.join('VF_REPLAY_VALUE(%s, %s)\n' % (k, v) for k, v in inputs.items() if v is not None)
        hps = [os.path.join(u.dir, h) if h in plan.generated else os.path.join(pdir, h) for h in u.harness]
        # the harness file holds the harnesses of all jobs of the unit: inputs of the other ones get a dummy value
        others = set()
        for hp in hps:
            try:
                others |= set(re.findall(r'VF_IN\(\s*[^,()]+,\s*(\w+)\s*\)', open(hp).read()))
            except OSError:
                pass
        src += ''.join('VF_REPLAY_VALUE(%s, 0)\n' % k for k in sorted(others) if inputs.get(k) is None)
        for hp in hps:
            src += '#include "%s"\n' % hp
        src += 'int main(void){ %s(); if (!vf_native_failed) printf("NATIVE-OK: all assertions hold on this input\\n"); return vf_native_failed; }\n' % j.entry
    mainc = os.path.join(rdir, 'replay_main.c')
    open(mainc, 'w').write(src)
    san = ['-fsanitize=address,undefined', '-fno-sanitize-recover=all', '-fno-omit-frame-pointer']
    objs = []
    srcs = [shim] + [os.path.join(REPO, s) for s in u.srcs]
    for k, s in enumerate(srcs):
        o = os.path.join(rdir, 'n%d.o' % k)
        rc, out = run(['g++', '-std=c++20', '-O0', '-g', '-D_GLIBCXX_ASSERTIONS', '-DFCPPT_VERIF', '-w'] + san + incs + ['-D' + d for d in u.defines] + ['-c', s, '-o', o])
        if rc != 0:
            return None, 'native shim compile failed: ' + out[-1500:]
        objs.append(o)
    mo = os.path.join(rdir, 'replay_main.o')
    rc, out = run(['gcc', '-std=gnu11', '-O0', '-g', '-w', '-DVF_NATIVE'] + san + incs + ['-I', rdir] + ['-D' + d for d in u.defines] + ['-c', mainc, '-o', mo])
    if rc != 0:
        return None, 'native replay main does not compile (harness not natively evaluable): ' + out[-1500:]
    exe = os.path.join(rdir, 'replay')
    rc, out = run(['g++'] + san + objs + [mo, '-o', exe])
    if rc != 0:
        return None, 'native link failed: ' + out[-1500:]
    try:
        os.environ['ASAN_OPTIONS'] = 'detect_leaks=0'
        rc, out = run([exe], timeout=20)
    except subprocess.TimeoutExpired:
        return True, 'native run did not terminate within 20 s (hang reproduced)'
    for f in objs + [mo]:
        try:
            os.remove(f)
        except OSError:
            pass
    if rc == 3:
        return None, 'native run: input outside the precondition\n' + out[-1500:]
    if rc == 0:
        return False, out[-1500:]
    return True, 'native run exit %d\n' % rc + out[-3000:]


def report(plan, tier, seed, results, infra_msgs, wall, get_trace, update_baseline):
    pid = plan.pid
    findings = [f for f in load_findings() if f['property'] == pid]
    basep = os.path.join(VERIF, 'baseline', pid + '.json')
    baseline = json.load(open(basep)) if os.path.exists(basep) else {}
    btier = baseline.get(tier, {})
    violations = []
    known = []
    undecided = list(infra_msgs)
    attempts = []
    jobs_ev = []
    n_obl = n_dis = 0
    nb_obl = nb_dis = 0
    solver_s = 0.0
    samples = []
    fuc = set()
    trusted = set()
    enforced = set()
    for r in results:
        if r.job.kind == 'contract' and r.status == 'proved':
            enforced.add(r.job.fn['cname'])
    for r in results:
        j = r.job
        nobl = len(r.oblig)
        ndis = sum(1 for o in r.oblig if o['status'] == 'SUCCESS')
        # vacuity guard against the recorded baseline
        if r.status == 'proved' and not update_baseline and j.name in btier and nobl < 0.8 * btier[j.name]:
            r.status = 'undecided'
            r.reason = 'obligation count dropped from %d to %d (vacuity guard)' % (btier[j.name], nobl)
        if r.status == 'undecided' and j.optional:
            attempts.append('%s: %s' % (j.name, r.reason))
        elif r.status == 'undecided':
            undecided.append('%s: %s' % (j.name, r.reason))
        if j.cls in ('P', 'W'):
            n_obl += nobl
            n_dis += ndis
        else:
            nb_obl += nobl
            nb_dis += ndis
        solver_s += r.solver_s
        if j.kind == 'contract':
            fuc.add(j.fn['demangled'])
        for rc_, rn in zip(j.replace_c, j.replace):
            if rc_ in enforced:
                fuc.add(rn)
            else:
                trusted.add('assumed contract (replaced at call site, not enforced in this run): ' + rn)
        for a in j.assumed:
            trusted.add(a)
        jobs_ev.append({'job': j.name, 'kind': j.kind, 'target': j.target, 'class': j.cls, 'bound': j.bound, 'status': r.status,
                        'backend': r.backend, 'solver_s': round(r.solver_s, 2), 'obligations': nobl, 'discharged': ndis,
                        'what': j.what, 'reason': r.reason[:300]})
        if r.status == 'proved' and len(samples) < 12 and r.oblig:
            o = r.oblig[len(r.oblig) // 2]
            samples.append({'job': j.name, 'obligation': o['property'], 'description': o['description'], 'at': '%s:%s' % (o['file'], o['line']), 'status': o['status'], 'backend': r.backend})
        if r.status == 'failed':
            # known finding?
            rest = []
            for o in r.fails:
                kf = [f for f in findings if f['job'] == j.name and f['obligation'] in o['description']]
                if kf:
                    known.append((kf[0], o))
                else:
                    rest.append(o)
            if rest:
                violations.append((r, rest))
    # trusted models mentioned once
    for u in plan.units:
        sym = getattr(u, 'sym', None)
        if not sym:
            continue
        for f in sym['functions']:
            if not f['defined'] and f['contract']:
                trusted.add('assumed contract on external (no body in the IR): ' + f['demangled'])
    trusted.add('runtime models in include/vf_rt.h: operator new/delete = malloc/free (never fails), symbolic-size memmove/memset byte loops')
    trusted.add('ir2c (IR -> C printer, /verif/tools/ir2c.cpp), clang++-14 front end, CBMC 6.11 and its SAT/SMT back ends')
    out_lines = []
    rdir_base = os.path.join(VERIF, 'replay', pid)
    nviol = 0
    for r, fails in violations:
        j = r.job
        rdir = os.path.join(rdir_base, re.sub(r'\W', '_', j.name)[:80])
        shutil.rmtree(rdir, ignore_errors=True)
        os.makedirs(rdir, exist_ok=True)
        traces = {}
        try:
            traces = get_trace(r)
        except Exception as e:  # noqa
            traces = {}
        inputs = {}
        for o in fails:
            t = traces.get((o['property'], o['description']))
            if t:
                inputs = t
                break
        reproduced, transcript = (None, 'no counterexample inputs extracted from the verifier trace')
        if inputs or (j.kind == 'contract' and not j.fn['params']):
            if j.native:
                try:
                    reproduced, transcript = native_replay(plan, j, inputs, os.path.join(rdir, 'native'))
                except Exception as e:  # noqa
                    reproduced, transcript = None, 'native replay raised %r' % e
            else:
                reproduced, transcript = None, 'native replay not available for this harness (abstract callees / ghost state)'
        rp = os.path.join(rdir, 'replay.json')
        json.dump({'property': pid, 'job': j.name, 'kind': j.kind, 'target': j.target, 'entry': j.entry, 'class': j.cls,
                   'failed_obligations': fails, 'counterexample_inputs': inputs, 'backend': r.backend,
                   'verifier_cmds': r.cmds, 'native_replay': {'reproduced': reproduced, 'transcript': transcript},
                   'verifier_output_file': os.path.join(r.dir, 'cbmc_%s.json' % r.backend),
                   'how_to_replay': 'cd /verif && ./check %s --tier %s --only \'^%s$\' --keep   (re-derives the obligation from /repo and re-runs the verifier); native: %s' % (pid, tier, re.escape(j.name), os.path.join(rdir, 'native', 'replay'))},
                  open(rp, 'w'), indent=1)
        # keep the verifier output next to the replay file
        try:
            shutil.copy(os.path.join(r.dir, 'cbmc_%s.json' % r.backend), os.path.join(rdir, 'verifier_output.json'))
        except Exception:
            pass
        nviol += 1
        tail = '' if reproduced else ' no-failing-input-found'
        for o in fails[:3]:
            out_lines.append('  failed obligation: [%s] %s at %s:%s (job %s, back end %s)' % (o['property'], o['description'], o['file'], o['line'], j.name, r.backend))
        if inputs:
            out_lines.append('  counterexample: ' + ', '.join('%s=%s' % kv for kv in list(inputs.items())[:12]))
        out_lines.append('  native replay: ' + ('REPRODUCED on the real code' if reproduced else ('did not reproduce' if reproduced is False else 'not available')) + ' - ' + transcript.strip().split('\n')[-1][:200])
        out_lines.append('VIOLATION property=%s replay=%s%s' % (pid, rp, tail))
    for f, o in known:
        out_lines.append('KNOWN-FINDING: property=%s %s [%s]' % (pid, f['text'], o['description']))
    level = plan.level
    cov = {
        'obligations': n_obl, 'discharged': n_dis,
        'checker_cmd': 'clang++-14 -O0 -emit-llvm | ir2c (+contracts) | goto-cc | goto-instrument --dfcc <harness> --enforce-contract <f> [--replace-call-with-contract <g>] [--apply-loop-contracts] | cbmc --object-bits 12 {SAT,--cvc5,--z3}',
        'trusted_base': sorted(trusted),
        'functions_under_contract': sorted(fuc),
        'proof_obligation_classes': 'P = unbounded (loop-free over the full machine domain, or loops closed by loop contracts); W = complete by width (unwinding assertions); B = bounded stand-in, not counted in obligations/discharged',
        'bounded_checks': {'obligations': nb_obl, 'discharged': nb_dis, 'jobs': [x for x in jobs_ev if x['class'] == 'B']},
        'jobs': jobs_ev,
        'solver_time_s': round(solver_s, 1),
        'evaluations': n_obl + nb_obl,
        'distinct_nontrivial': len(set((x['job']) for x in jobs_ev if x['status'] == 'proved')) if len(jobs_ev) > 1 else 0,
        'rule': 'one evaluation = one verifier obligation (contract postcondition, loop-invariant base/step, UB/memory-safety assertion, lemma assertion) decided over fully symbolic inputs; distinct_nontrivial counts distinct jobs (function contracts / lemmas) fully discharged, reachability probe confirmed',
        'samples': samples,
        'undecided': undecided,
        'attempted_not_decided (optional jobs: solver limit, never a violation, not counted as proved)': attempts,
        'not_decided_parts': plan.not_decided,
        'meta_arguments_not_machine_checked': plan.meta,
        'exhaustive': False,
    }
    ev = {'property_id': pid, 'tier': tier, 'seed': seed, 'level': level, 'coverage': cov,
          'assumptions': EXTRACTION_DROPS + plan.assumptions, 'wall_s': round(wall, 1), 'violations': nviol}
    os.makedirs(os.path.join(VERIF, 'evidence'), exist_ok=True)
    # partial runs (--only) never overwrite the registered evidence file
    evname = pid + ('.partial' if os.environ.get('VF_PARTIAL') else '') + '.json'
    json.dump(ev, open(os.path.join(VERIF, 'evidence', evname), 'w'), indent=1)
    for l in out_lines:
        print(l)
    print('[%s] tier=%s jobs=%d proved=%d failed=%d undecided=%d obligations(P/W)=%d/%d bounded=%d/%d solver=%.0fs wall=%.0fs' % (
        pid, tier, len(results), sum(1 for r in results if r.status == 'proved'), len(violations), len(undecided), n_dis, n_obl, nb_dis, nb_obl, solver_s, wall))
    for m in undecided[:20]:
        print('  UNDECIDED: ' + m[:600])
    if update_baseline and not violations and not undecided:
        baseline[tier] = {r.job.name: len(r.oblig) for r in results}
        os.makedirs(os.path.dirname(basep), exist_ok=True)
        json.dump(baseline, open(basep, 'w'), indent=1, sort_keys=True)
    if nviol:
        return 1
    if undecided:
        return 2
    return 0


def replay_file(path):
    d = json.load(open(path))
    print('replay of %s job %s' % (d['property'], d['job']))
    print(d['how_to_replay'])
    exe = os.path.join(os.path.dirname(path), 'native', 'replay')
    if os.path.exists(exe):
        p = subprocess.run([exe], stdout=subprocess.PIPE, stderr=subprocess.STDOUT)
        print(p.stdout.decode('utf-8', 'replace'))
        return 1 if p.returncode else 0
    print(json.dumps(d['failed_obligations'], indent=1))
    return 1
