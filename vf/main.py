#!/usr/bin/env python3
"""Driver: real fcppt C++ -> clang IR -> ir2c (C + contracts) -> goto-cc -> goto-instrument --dfcc -> cbmc.

usage: check <PROPERTY> [--tier quick|thorough] [--only REGEX] [--keep] [--replay FILE] [--update-baseline]
exit 0: every obligation discharged; 1: VIOLATION line(s) printed; 2: undecided / infrastructure.
"""
import sys, os, re, json, time, shutil, subprocess, threading, importlib.util, signal, resource, hashlib
from concurrent.futures import ThreadPoolExecutor

VERIF = os.path.dirname(os.path.dirname(os.path.abspath(__file__)))
REPO = os.environ.get('VF_REPO', '/repo')
sys.path.insert(0, VERIF)
from vf import replay as vfreplay  # noqa: E402

INC = ['libs/core/include', 'libs/core/impl/include', 'libs/parse/include', 'libs/options/include', 'libs/options/impl/include', 'libs/log/include', 'libs/log/impl/include',
       'libs/filesystem/include', 'libs/boost/include', 'libs/catch/include', '_build/include']
NCPU = int(os.environ.get('VF_JOBS', '14'))
MODEL_LIMIT = ('memmove model bound', 'memset model bound')

lock = threading.Lock()


def log(*a):
    with lock:
        print(*a, flush=True)


def run(cmd, timeout=None, mem_gb=None, env=None, cwd=None):
    def pre():
        os.setsid()
        if mem_gb:
            b = int(mem_gb * (1 << 30))
            resource.setrlimit(resource.RLIMIT_AS, (b, b))
    t0 = time.time()
    p = subprocess.Popen(cmd, stdout=subprocess.PIPE, stderr=subprocess.PIPE, preexec_fn=pre, env=env, cwd=cwd)
    try:
        out, err = p.communicate(timeout=timeout)
        return p.returncode, out.decode('utf-8', 'replace'), err.decode('utf-8', 'replace'), time.time() - t0
    except subprocess.TimeoutExpired:
        try:
            os.killpg(p.pid, signal.SIGKILL)
        except ProcessLookupError:
            pass
        out, err = p.communicate()
        return -9, out.decode('utf-8', 'replace'), err.decode('utf-8', 'replace'), time.time() - t0


class Infra(Exception):
    pass


def load_plan(pid, tier):
    path = os.path.join(VERIF, 'props', pid, 'plan.py')
    spec = importlib.util.spec_from_file_location('plan_' + pid, path)
    mod = importlib.util.module_from_spec(spec)
    spec.loader.exec_module(mod)
    return mod.make(tier)


def find_fn(sym, key):
    hits = [f for f in sym['functions'] if key in (f['demangled'], f['name'], f['cname'])]
    if len(hits) != 1:
        raise Infra('function %r matches %d symbols in the generated C (must-fire)' % (key, len(hits)))
    return hits[0]


def contract_as_harness(plan, u, j, f, ud, pdir):
    """the same requires/ensures clauses as a plain harness: fresh objects are malloc'ed, the other requires assumed,
    the function called, every ensures asserted. No frame (assigns) check, no __CPROVER_old."""
    clauses = None
    for s in u.specs:
        sp = os.path.join(ud, s) if s in plan.generated else os.path.join(pdir, s)
        d = vfreplay.parse_spec(sp)
        for k in d:
            if k in (f['demangled'], f['name'], f['cname']):
                clauses = d[k]
    if clauses is None:
        raise Infra('no contract text for %s' % j.target)
    lines = ['void %s(void)' % j.entry, '{']
    for p in f['params']:
        lines.append('  %s %s;' % (p['type'], p['name']))
    fresh_re = re.compile(r'__CPROVER_is_fresh\((\w+),\s*([^()]*(?:\([^()]*\)[^()]*)*)\)')
    ens = []
    for c in clauses:
        if c.startswith('__CPROVER_requires('):
            b = vfreplay.clause_body(c, '__CPROVER_requires')
            for mm in fresh_re.finditer(b):
                lines.append('  %s = malloc(%s); __CPROVER_assume(%s != 0);' % (mm.group(1), mm.group(2), mm.group(1)))
            b = fresh_re.sub('1', b)
            lines.append('  __CPROVER_assume(%s);' % b)
        elif c.startswith('__CPROVER_ensures('):
            b = vfreplay.clause_body(c, '__CPROVER_ensures')
            if '__CPROVER_old' in b:
                raise Infra('contract of %s uses __CPROVER_old: not supported without --dfcc' % j.target)
            ens.append(b)
    args = ', '.join(p['name'] for p in f['params'])
    if f['ret'] == 'void':
        lines.append('  %s(%s);' % (f['cname'], args))
    else:
        lines.append('  %s vf_ret = %s(%s);' % (f['ret'], f['cname'], args))
    for i, b in enumerate(ens):
        b2 = b.replace('__CPROVER_return_value', 'vf_ret')
        lines.append('  __CPROVER_assert(%s, "postcondition %d of %s");' % (b2, i + 1, f['cname']))
    lines.append('  VF_PROBE();')
    lines.append('}')
    return '\n'.join(lines)


def build_unit(plan, u, bdir, tier):
    pdir = os.path.join(VERIF, 'props', plan.pid)
    ud = os.path.join(bdir, u.name)
    os.makedirs(ud, exist_ok=True)
    incs = []
    for i in INC:
        incs += ['-I', os.path.join(REPO, i)]
    incs += ['-I', pdir, '-I', os.path.join(VERIF, 'include')]
    shim = os.path.join(ud, u.shim) if u.shim in plan.generated else os.path.join(pdir, u.shim)
    for fn, text in plan.generated.items():
        with open(os.path.join(ud, fn), 'w') as f:
            f.write(text)
    ll = os.path.join(ud, 'shim.ll')
    cmd = ['clang++-14', '-std=c++20', '-g', '-fno-discard-value-names', '-S', '-emit-llvm', '-DFCPPT_VERIF', '-Wno-everything'] + incs
    if u.inline:
        cmd += ['-O1', '-Xclang', '-disable-llvm-passes']
    elif u.sroa:
        cmd += ['-O0', '-Xclang', '-disable-O0-optnone']
    else:
        cmd += ['-O0']
    cmd += ['-D' + d for d in u.defines]
    t0 = time.time()
    srcs = [shim] + [os.path.join(REPO, s) for s in u.srcs]
    lls = []
    for k, s in enumerate(srcs):
        o = os.path.join(ud, 'm%d.ll' % k)
        rc, out, err, _ = run(cmd + [s, '-o', o], timeout=600)
        if rc != 0:
            raise Infra('clang++ failed on %s:\n%s' % (s, err[-3000:]))
        lls.append(o)
    if len(lls) > 1:
        rc, out, err, _ = run(['llvm-link-14', '-S'] + lls + ['-o', ll], timeout=300)
        if rc != 0:
            raise Infra('llvm-link failed:\n' + err[-2000:])
    else:
        shutil.copy(lls[0], ll)
    if u.sroa:
        rc, out, err, _ = run(['opt-14', '-S', '-passes=' + ('inline,sroa,mem2reg' if u.inline else 'sroa,mem2reg'), ll, '-o', ll + '.opt'], timeout=300)
        if rc != 0:
            raise Infra('opt failed:\n' + err[-2000:])
        ll = ll + '.opt'
    gen = os.path.join(ud, 'gen.c')
    symf = os.path.join(ud, 'sym.json')
    cmd = [os.path.join(VERIF, 'bin', 'ir2c'), ll, '-o', gen, '-sym', symf] + (['-ufmul'] if u.ufmul else [])
    for s in u.specs:
        sp = os.path.join(ud, s) if s in plan.generated else os.path.join(pdir, s)
        cmd += ['-spec', sp]
    rc, out, err, _ = run(cmd, timeout=300)
    if rc != 0:
        raise Infra('ir2c failed (extraction abort):\n' + err[-3000:])
    sym = json.load(open(symf))
    u.sym = sym
    # generated harnesses for contract jobs
    hs = ['#include "vf.h"', '#define VF_MAXB %d' % u.maxb, '#include "vf_rt.h"']
    for h in u.pre:
        hp = os.path.join(ud, h) if h in plan.generated else os.path.join(pdir, h)
        hs.append('#include "%s"' % hp)
    hs.append('#include "gen.c"')
    for h in u.harness:
        hp = os.path.join(ud, h) if h in plan.generated else os.path.join(pdir, h)
        hs.append('#include "%s"' % hp)
    k = 0
    for j in u.jobs:
        if j.kind == 'contract':
            f = find_fn(sym, j.target)
            if not f['contract']:
                raise Infra('contract job %s: no contract attached to %s' % (j.name, j.target))
            j.fn = f
            j.entry = 'vfh_%d_%s' % (k, re.sub(r'\W', '_', f['cname'])[:40])
            k += 1
            if j.dfcc:
                decl = ''.join('  %s a%d;\n' % (p['type'], i) for i, p in enumerate(f['params']))
                call = '%s(%s);' % (f['cname'], ', '.join('a%d' % i for i in range(len(f['params']))))
                hs.append('void %s(void)\n{\n%s  %s\n  VF_PROBE();\n}' % (j.entry, decl, call))
            else:
                hs.append(contract_as_harness(plan, u, j, f, ud, pdir))
        else:
            j.entry = j.target
            j.fn = None
        j.replace_c = [find_fn(sym, r)['cname'] for r in j.replace]
    unitc = os.path.join(ud, 'unit.c')
    with open(unitc, 'w') as f:
        f.write('\n'.join(hs) + '\n')
    # one define per bodiless external present in the IR, so harness stubs for optional externals can be conditional
    have = ['-DVF_HAVE_' + f['cname'] for f in sym['functions'] if not f['defined']]
    uo = os.path.join(ud, 'unit.o')
    rc, out, err, _ = run(['goto-cc', '-c', unitc, '-o', uo, '-I', ud, '-I', pdir, '-I', os.path.join(VERIF, 'include'), '-DVF_CBMC'] + have + ['-D' + d for d in u.defines], timeout=600)
    if rc != 0:
        raise Infra('goto-cc failed on generated C:\n' + (err + out)[-3000:])
    u.obj = uo
    u.dir = ud
    u.build_s = time.time() - t0


BACKENDS = {
    'sat': [],
    'cadical': ['--sat-solver', 'cadical'],
    'kissat': ['--external-sat-solver', 'kissat'],
    'z3': ['--z3'],
    'cvc5': ['--cvc5'],
    'z3new': ['--z3'],
}


def parse_cbmc_json(out):
    """returns (results list, errors list, status) from --json-ui output"""
    try:
        data = json.loads(out)
    except Exception:
        # truncated output (killed): try to salvage nothing
        return None, ['unparsable cbmc output'], None
    res, errs, status = None, [], None
    for item in data:
        if not isinstance(item, dict):
            continue
        if 'result' in item:
            res = item['result']
        if item.get('messageType') == 'ERROR':
            errs.append(item.get('messageText', ''))
        if 'cProverStatus' in item:
            status = item['cProverStatus']
    return res, errs, status


class JobResult:
    pass


def run_job(plan, j, tier):
    u = j.unit
    jd = os.path.join(u.dir, 'job_' + re.sub(r'\W', '_', j.name)[:80] + '_' + hashlib.md5(j.name.encode()).hexdigest()[:6])
    os.makedirs(jd, exist_ok=True)
    R = JobResult()
    R.job = j
    R.dir = jd
    R.status = 'undecided'
    R.reason = ''
    R.oblig = []
    R.backend = None
    R.solver_s = 0.0
    R.cmds = []
    t0 = time.time()
    gb = os.path.join(jd, 'a.gb')
    cmd = ['goto-cc', '--function', j.entry, u.obj, '-o', gb]
    rc, out, err, _ = run(cmd, timeout=600)
    R.cmds.append(' '.join(cmd))
    if rc != 0:
        R.reason = 'goto-cc link failed: ' + (err + out)[-1500:]
        return R
    if j.loops and j.kind == 'contract':
        # loop contracts are only applied (and their obligations only expected) if the current code of the target or of a
        # function it calls still has a loop; a loop-free rewrite is decided directly against the function contract
        byc = {f['cname']: f for f in j.unit.sym['functions']}
        seen, todo, nl = set(), [j.fn['cname']], 0
        while todo:
            c = todo.pop()
            if c in seen or c not in byc:
                continue
            seen.add(c)
            nl += byc[c].get('loops', 0)
            todo += byc[c].get('calls', [])
        if nl == 0:
            j.loops = False
            j.assumed.append('loop contracts not applied: the current code reached from %s has no loop' % j.target)
    need_dfcc = (j.kind == 'contract' and j.dfcc) or j.replace_c or j.loops
    if need_dfcc:
        gb2 = os.path.join(jd, 'b.gb')
        cmd = ['goto-instrument', '--dfcc', j.entry]
        if j.kind == 'contract' and j.dfcc:
            cmd += ['--enforce-contract', j.fn['cname']]
        for r in j.replace_c:
            cmd += ['--replace-call-with-contract', r]
        if j.loops:
            cmd += ['--apply-loop-contracts']
        if j.nondet_static:
            cmd += ['--nondet-static']
        cmd += [gb, gb2]
        rc, out, err, _ = run(cmd, timeout=900, mem_gb=j.mem)
        R.cmds.append(' '.join(cmd))
        if rc != 0:
            R.reason = 'goto-instrument --dfcc failed: ' + (err + out)[-2500:]
            return R
        gb = gb2
    j.timeout = int(j.timeout * float(os.environ.get('VF_TIMEOUT_SCALE', '1')))
    base = ['cbmc', gb, '--object-bits', '12', '--json-ui'] + j.extra_cbmc
    if j.unwind is not None:
        base += ['--unwind', str(j.unwind), '--unwinding-assertions']
    if j.unwind_files:
        # per-loop bounds selected by the source file of the loop (e.g. the fixed-size loops of std::array): loop ids are read from the binary
        rc, out, err, _ = run(['cbmc', gb, '--show-loops'], timeout=300, mem_gb=j.mem)
        us = []
        cur = None
        for ln in out.splitlines():
            mm = re.match(r'Loop (\S+):$', ln.strip())
            if mm:
                cur = mm.group(1)
                continue
            if cur and ln.strip().startswith('file '):
                for pat, bnd in j.unwind_files.items():
                    if pat in ln or pat in cur:
                        us.append('%s:%d' % (cur, bnd))
                        break
                cur = None
        if rc != 0:
            R.reason = 'cbmc --show-loops failed: ' + (err + out)[-800:]
            return R
        if us:
            base += ['--unwindset', ','.join(us)]
    R.gb = gb
    R.base_cmd = base
    # staggered back-end portfolio: first definitive answer wins
    procs = {}
    results = {}
    done = threading.Event()

    def worker(be):
        env = dict(os.environ)
        if be == 'z3new':
            env['PATH'] = os.path.join(VERIF, 'bin', 'z3new') + ':' + env['PATH']
        cmd = base + BACKENDS[be]

        def pre():
            os.setsid()
            b = int(j.mem * (1 << 30))
            resource.setrlimit(resource.RLIMIT_AS, (b, b))
        ts = time.time()
        p = subprocess.Popen(cmd, stdout=subprocess.PIPE, stderr=subprocess.PIPE, preexec_fn=pre, env=env)
        procs[be] = p
        try:
            out, err = p.communicate(timeout=j.timeout)
            rc = p.returncode
        except subprocess.TimeoutExpired:
            try:
                os.killpg(p.pid, signal.SIGKILL)
            except ProcessLookupError:
                pass
            out, err = p.communicate()
            rc = -9
        dt = time.time() - ts
        out = out.decode('utf-8', 'replace')
        with open(os.path.join(jd, 'cbmc_%s.json' % be), 'w') as f:
            f.write(out)
        res, errs, status = parse_cbmc_json(out) if rc in (0, 10) else (None, ['rc=%d %s' % (rc, err.decode('utf-8', 'replace')[-300:])], None)
        results[be] = (rc, res, errs, status, dt, ' '.join(cmd))
        if res is not None and status in ('success', 'failure'):
            done.set()

    threads = []
    started = []
    tstart = time.time()
    for i, be in enumerate(j.backends):
        if done.is_set():
            break
        t = threading.Thread(target=worker, args=(be,))
        t.start()
        threads.append(t)
        started.append(be)
        if i + 1 < len(j.backends):
            # wait stagger seconds or until done / this thread ends
            tw = time.time()
            while time.time() - tw < j.stagger and not done.is_set() and any(x.is_alive() for x in threads):
                time.sleep(0.2)
            if not any(x.is_alive() for x in threads) and not done.is_set():
                continue
    while any(x.is_alive() for x in threads) and not done.is_set():
        time.sleep(0.2)
    # kill the rest (repeatedly: a worker that was started just before the first answer arrived registers its process late)
    while True:
        for be, p in list(procs.items()):
            if p.poll() is None:
                try:
                    os.killpg(p.pid, signal.SIGKILL)
                except ProcessLookupError:
                    pass
        if not any(x.is_alive() for x in threads):
            break
        time.sleep(0.2)
    for t in threads:
        t.join()
    R.wall_s = time.time() - t0
    winner = None
    for be in started:
        r = results.get(be)
        if r and r[1] is not None and r[3] in ('success', 'failure'):
            winner = be
            break
    if winner is None:
        R.reason = 'no back end answered within %ds: ' % j.timeout + '; '.join('%s: %s' % (be, (results.get(be) or (0, 0, ['killed'], 0, 0))[2][:1]) for be in started)
        return R
    rc, res, errs, status, dt, cmdline = results[winner]
    R.backend = winner
    R.solver_s = dt
    R.cmds.append(cmdline)
    probe_ok = False
    expected_seen = set()
    fails = []
    infra = []
    for o in res:
        desc = o.get('description', '')
        prop = o.get('property', '')
        st = o.get('status')
        loc = o.get('sourceLocation', {})
        ob = {'property': prop, 'description': desc, 'status': st, 'file': loc.get('file', ''), 'line': loc.get('line', ''), 'function': loc.get('function', '')}
        if desc.startswith('VF_PROBE'):
            if st == 'FAILURE':
                probe_ok = True
            continue
        if any(x in desc for x in j.expected):
            if st == 'FAILURE':
                expected_seen.add(desc)
            continue
        R.oblig.append(ob)
        if st == 'FAILURE':
            if ('.unwind.' in prop and ('/include/c++/' in ob['file'] or (ob['file'].startswith(VERIF) and ob['file'].endswith(('.c', '.h'))))) or any(m in desc for m in MODEL_LIMIT) or prop.startswith('no-body.') or '.no-body.' in prop or prop.startswith(('vf_memmove.unwind', 'vf_memset.unwind', 'vf_wmem', 'vf_wcslen.unwind')):
                infra.append(ob)
            else:
                fails.append(ob)
        elif st != 'SUCCESS':
            infra.append(ob)
    R.fails = fails
    if fails and not any(o['status'] == 'FAILURE' for o in infra):
        # a definite FAILURE with a counterexample; obligations left UNKNOWN behind it do not matter
        R.status = 'failed'
        return R
    if infra:
        R.status = 'undecided'
        R.reason = 'infrastructure obligation(s) not discharged: ' + '; '.join('%s %s' % (o['property'], o['description']) for o in infra[:5])
        return R
    if fails:
        R.status = 'failed'
        return R
    if j.expected and not all(any(x in d for d in expected_seen) for x in j.expected):
        R.reason = 'expected (documented) failure site was not reached: ' + ', '.join(j.expected)
        return R
    if not R.oblig:
        R.reason = 'vacuous: zero obligations generated'
        return R
    if not probe_ok and not j.expect_noprobe:
        R.reason = 'vacuous: reachability probe VF_PROBE did not fail (contradictory requires/assumptions or harness cannot return)'
        return R
    if j.loops and j.kind == 'contract':
        if not any('_wrapped_for_contract_checking.' in o['property'] for o in R.oblig):
            R.reason = 'loop contract silently dropped: no loop-invariant obligations in the result'
            return R
    R.status = 'proved'
    return R


def get_trace(R):
    """re-run the winning back end with --trace, return {name: value} for harness inputs and the failing trace text"""
    j = R.job
    cmd = R.base_cmd + ['--trace'] + BACKENDS[R.backend]
    env = dict(os.environ)
    if R.backend == 'z3new':
        env['PATH'] = os.path.join(VERIF, 'bin', 'z3new') + ':' + env['PATH']
    rc, out, err, dt = run(cmd, timeout=j.timeout, mem_gb=j.mem, env=env)
    res, errs, status = parse_cbmc_json(out)
    traces = {}
    if not res:
        return traces
    for o in res:
        if o.get('status') == 'FAILURE' and 'trace' in o and not o.get('description', '').startswith('VF_PROBE'):
            vals = {}
            for st in o['trace']:
                if st.get('stepType') == 'assignment' and not st.get('hidden', False):
                    fn = st.get('sourceLocation', {}).get('function', '')
                    lhs = st.get('lhs', '')
                    v = st.get('value', {})
                    if fn == j.entry and re.fullmatch(r'[A-Za-z_]\w*', lhs) and 'data' in v:
                        vals.setdefault(lhs, v.get('data'))
            traces[(o.get('property'), o.get('description'))] = vals
    return traces


def main():
    args = sys.argv[1:]
    if not args:
        print(__doc__)
        return 2
    pid = args[0]
    tier = os.environ.get('VERIF_TIER', 'quick')
    only = None
    keep = False
    update = False
    i = 1
    while i < len(args):
        if args[i] == '--tier':
            tier = args[i + 1]
            i += 2
        elif args[i] == '--only':
            only = re.compile(args[i + 1])
            os.environ['VF_PARTIAL'] = '1'
            i += 2
        elif args[i] == '--keep':
            keep = True
            i += 1
        elif args[i] == '--update-baseline':
            update = True
            i += 1
        elif args[i] == '--replay':
            return vfreplay.replay_file(args[i + 1])
        else:
            print('unknown argument', args[i])
            return 2
    seed = int(os.environ.get('VERIF_SEED', '0') or 0)
    t_start = time.time()
    plan = load_plan(pid, tier)
    bdir = os.path.join(VERIF, 'build', pid)
    os.makedirs(os.path.join(VERIF, 'build'), exist_ok=True)
    import fcntl
    lockf = open(os.path.join(VERIF, 'build', pid + '.lock'), 'w')
    fcntl.flock(lockf, fcntl.LOCK_EX)   # one run per property at a time (they share the build directory)
    shutil.rmtree(bdir, ignore_errors=True)
    os.makedirs(bdir)
    infra_msgs = []
    # build all units in parallel
    units = [u for u in plan.units if (u.tier == 'quick' or tier == 'thorough')]
    for u in units:
        u.jobs = [j for j in u.jobs if (j.tier == 'quick' or tier == 'thorough') and (only is None or only.search(j.name))]
    units = [u for u in units if u.jobs]

    def bu(u):
        try:
            build_unit(plan, u, bdir, tier)
            return None
        except Infra as e:
            return '%s: %s' % (u.name, e)
    with ThreadPoolExecutor(max_workers=NCPU) as ex:
        for msg in ex.map(bu, units):
            if msg:
                infra_msgs.append(msg)
    results = []
    if not infra_msgs:
        jobs = [j for u in units for j in u.jobs]
        # longest first
        jobs.sort(key=lambda j: -j.timeout)
        with ThreadPoolExecutor(max_workers=min(NCPU, plan.workers or NCPU)) as ex:
            def rj(j):
                try:
                    r = run_job(plan, j, tier)
                except Exception as e:  # noqa
                    r = JobResult()
                    r.job, r.status, r.reason, r.oblig, r.backend, r.solver_s, r.cmds, r.wall_s, r.dir = j, 'undecided', 'driver exception %r' % e, [], None, 0.0, [], 0.0, ''
                log('  [%s] %-9s %-60s %s %.1fs %s' % (pid, r.status, j.name[:60], r.backend or '-', getattr(r, 'wall_s', 0.0), ('(' + r.reason[:200] + ')') if r.reason else ''))
                return r
            results = list(ex.map(rj, jobs))
    rc = vfreplay.report(plan, tier, seed, results, infra_msgs, time.time() - t_start, get_trace, update)
    if not keep and rc == 0:
        shutil.rmtree(bdir, ignore_errors=True)
    return rc


if __name__ == '__main__':
    sys.exit(main())
