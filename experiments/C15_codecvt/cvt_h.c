/* C15 harness for fcppt::impl::codecvt: ASSUMED contract of the std::codecvt facet as an executable model - an arbitrary
   deterministic variable-length encoding: a wide character c needs elen(c) in 0..4 narrow characters (0 = not representable) whose
   values are ebyte(c, i); a narrow lead character b starts a sequence of dlen(b) in 0..4 narrow characters (0 = invalid) that
   decodes to dval(...). do_out / do_in convert whole characters while input and output space last and report
   ok / partial (output space exhausted, or the input ends inside a sequence) / error, with from_next / to_next after the last
   converted character - the behaviour the standard specifies. noconv is never returned. max_length() == 4. */
u32 __CPROVER_uninterpreted_elen(u32 c);
u32 __CPROVER_uninterpreted_ebyte(u32 c, u32 i);
u32 __CPROVER_uninterpreted_dlen(u32 b);
u32 __CPROVER_uninterpreted_dval(u32 b0, u32 b1, u32 b2, u32 b3);
#ifndef VF_ELEN_MAX
#define VF_ELEN_MAX 4
#endif
static u32 elen(u32 c){ u32 l = __CPROVER_uninterpreted_elen(c); return l > VF_ELEN_MAX ? VF_ELEN_MAX : l; }
static u32 dlen(u32 b){ u32 l = __CPROVER_uninterpreted_dlen(b); return l > VF_ELEN_MAX ? VF_ELEN_MAX : l; }
/* case split: the harness fixes the length of the character at each input POSITION to a constant (g_len), so that every size and offset is
   concrete for the symbolic execution; the character VALUES stay symbolic. Lengths indexed by position allow more behaviours than a
   function of the value (equal characters at two positions are excluded when their lengths differ), which is sound for a proof. */
static u32 g_len[8]; static const void *g_base;
static unsigned c_cvt;
u32 vf_cvt_max_length(void){ return 4; }
u32 vf_cvt_out(u32 *from, u32 *from_end, u32 **from_next, u8 *to, u8 *to_end, u8 **to_next){
  ++c_cvt;
  while (from != from_end) {
    u32 l = g_len[from - (u32 *)g_base];
    if (l == 0) { *from_next = from; *to_next = to; return 2; }
    if ((u64)(to_end - to) < l) { *from_next = from; *to_next = to; return 1; }
    for (u32 i = 0; i < 4; ++i) if (i < l) { *to = (u8)__CPROVER_uninterpreted_ebyte(*from, i); ++to; }
    ++from;
  }
  *from_next = from; *to_next = to; return 0;
}
static u32 dec(const u8 *p, u32 l){ return __CPROVER_uninterpreted_dval(p[0], l > 1 ? p[1] : 0, l > 2 ? p[2] : 0, l > 3 ? p[3] : 0); }
u32 vf_cvt_in(u8 *from, u8 *from_end, u8 **from_next, u32 *to, u32 *to_end, u32 **to_next){
  ++c_cvt;
  while (from != from_end) {
    u32 l = g_len[from - (u8 *)g_base];
    if (l == 0) { *from_next = from; *to_next = to; return 2; }
    if ((u64)(from_end - from) < l || to == to_end) { *from_next = from; *to_next = to; return 1; }
    *to = dec(from, l); ++to; from += l;
  }
  *from_next = from; *to_next = to; return 0;
}
/* std::use_facet<std::codecvt<wchar_t, char, mbstate_t>>(locale const &): hands out the abstract facet; base-class constructor / destructor: no-ops */
#ifdef VF_HAVE__ZSt9use_facetISt7codecvtIwc11__mbstate_tEERKT_RKSt6locale
_ZSt9use_facetISt7codecvtIwc11__mbstate_tEERKT_RKSt6locale_ret_t _ZSt9use_facetISt7codecvtIwc11__mbstate_tEERKT_RKSt6locale(_ZSt9use_facetISt7codecvtIwc11__mbstate_tEERKT_RKSt6locale_arg0_t l){ return (_ZSt9use_facetISt7codecvtIwc11__mbstate_tEERKT_RKSt6locale_ret_t)vf_facet_ptr; }
#endif
#ifdef VF_HAVE__ZNSt7codecvtIwc11__mbstate_tEC2Em
void _ZNSt7codecvtIwc11__mbstate_tEC2Em(_ZNSt7codecvtIwc11__mbstate_tEC2Em_arg0_t t, u64 refs){ }
#endif
#ifdef VF_HAVE__ZNSt7codecvtIwc11__mbstate_tED2Ev
void _ZNSt7codecvtIwc11__mbstate_tED2Ev(_ZNSt7codecvtIwc11__mbstate_tED2Ev_arg0_t t){ }
#endif
