#include <fcppt/narrow_locale.hpp>
#include <fcppt/widen_locale.hpp>
#include <fcppt/optional/object.hpp>
#include <locale>
#include <iostream>
#include <string>
int main(){
  std::locale loc;
  try { loc = std::locale("C.utf8"); } catch (...) { try { loc = std::locale("en_US.UTF-8"); } catch (...) { std::cout << "no utf8 locale\n"; return 2; } }
  wchar_t const *tests[] = {L"€", L"a€", L"ab€", L"é", L"abc", L"a\U0001F600"};
  int bad = 0;
  for (auto t : tests) {
    auto r = fcppt::narrow_locale(std::wstring_view{t}, loc);
    std::cout << "narrow: has=" << r.has_value();
    if (r.has_value()) { std::cout << " len=" << r.get_unsafe().size(); bool ok = false; try { auto back = fcppt::widen_locale(r.get_unsafe(), loc); ok = (back == std::wstring{t}); } catch (std::exception const &) {} std::cout << " roundtrip=" << ok; if (!ok) ++bad; }
    std::cout << "\n";
  }
  char const *wt[] = {"\xE2\x82\xAC", "a\xE2\x82\xAC", "abc\xE2\x82", "\xE2"};
  for (auto t : wt) { try { auto r = fcppt::widen_locale(std::string_view{t}, loc); std::cout << "widen(" << std::string{t}.size() << " bytes): len=" << r.size() << "\n"; } catch (std::exception const &e) { std::cout << "widen(" << std::string{t}.size() << " bytes): throws\n"; } }
  return bad;
}
