# the unit that was tried in props/C15/plan.py (not registered: does not close, see README.md)
    # ---- narrow / widen: fcppt::impl::codecvt against an abstract std::codecvt facet (cvt.cpp, cvt_h.c); harnesses generated per case
    FACET = 'assumed contract (executable model, props/C15/cvt_h.c): the std::codecvt<wchar_t, char, mbstate_t> facet is an arbitrary deterministic variable-length encoding (1..4 narrow characters per wide character, max_length() == 4) whose do_out / do_in convert whole characters while space lasts and report ok / partial / error with from_next / to_next after the last converted character; noconv is never returned; std::use_facet hands out that facet; the std::locale object is not inspected'
    import itertools
    hc = ''
    cases = []
    NMAX = 3 if tier == 'thorough' else 2
    for n in range(0, NMAX + 1):
        for L in itertools.product(range(0, 5), repeat=n):
            if 0 in L and L.index(0) != len(L) - 1 and any(x == 0 for x in L[L.index(0) + 1:]):
                pass
            tag = 'n%d_%s' % (n, ''.join(map(str, L)) or 'e')
            valid = all(x > 0 for x in L)
            total = sum(L) if valid else 0
            b = 'void h_narrow_%s(void){ u32 src[4]; u8 out[16]; u64 on = 0; c_cvt = 0; g_base = src;\n' % tag
            b += ''.join('  { VF_IN(u32, c); src[%d] = c; } g_len[%d] = %d;\n' % (k, k, L[k] if k < n else 0) for k in range(4))
            b += ''.join('  __CPROVER_assume(src[%d] != src[%d]);\n' % (i, j) for i in range(n) for j in range(i + 1, n) if L[i] != L[j])
            b += '  u32 r = vf_narrow(src, %d, out, &on);\n' % n
            if valid:
                b += '  __CPROVER_assert(r == 1, "narrow: a string of representable characters is converted (no failure reported)");\n'
                b += '  __CPROVER_assert(r != 1 || on == %d, "narrow never silently truncates: the result has the length of the complete encoding");\n' % total
                off = 0
                for k in range(n):
                    for i in range(L[k]):
                        b += '  __CPROVER_assert(r != 1 || out[%d] == (u8)__CPROVER_uninterpreted_ebyte(src[%d], %d), "narrow: the result is the concatenation of the encodings of all characters, in order");\n' % (off, k, i)
                        off += 1
            else:
                b += '  __CPROVER_assert(r == 0, "narrow: a character without an encoding makes the conversion report failure (never a truncated result)");\n'
            b += '  VF_PROBE(); }\n'
            hc += b
            cases.append(('h_narrow_%s' % tag, n, 'narrow, %d wide character(s) with encoding lengths %s (0 = not representable)' % (n, list(L))))
    # widen: parse structures over n narrow characters
    def structs(n, pos=0, acc=()):
        if pos == n:
            yield acc, True
            return
        for l in range(0, 5):
            if l == 0 or l > n - pos:
                yield acc + ((pos, l),), False
            else:
                yield from structs(n, pos + l, acc + ((pos, l),))
    for n in range(0, NMAX + 2):
        for st, valid in structs(n):
            tag = 'n%d_%s' % (n, ''.join('%d' % l for (_, l) in st) or 'e')
            b = 'void h_widen_%s(void){ u8 src[8]; u32 out[16]; u64 on = 0; c_cvt = 0; g_base = src;\n' % tag
            b += ''.join('  { VF_IN(u8, c); src[%d] = c; } g_len[%d] = 0;\n' % (k, k) for k in range(8))
            b += ''.join('  g_len[%d] = %d;\n' % (pos, l) for (pos, l) in st)
            b += ''.join('  __CPROVER_assume(src[%d] != src[%d]);\n' % (p1, p2) for a, (p1, l1) in enumerate(st) for (p2, l2) in st[a + 1:] if l1 != l2)
            b += '  u32 r = vf_widen(src, %d, out, &on);\n' % n
            if valid:
                b += '  __CPROVER_assert(r == 1, "widen: a string of complete valid sequences is converted (no failure reported)");\n'
                b += '  __CPROVER_assert(r != 1 || on == %d, "widen never silently truncates: one wide character per sequence");\n' % len(st)
                for k, (pos, l) in enumerate(st):
                    b += '  __CPROVER_assert(r != 1 || out[%d] == dec(src + %d, %d), "widen: the result is the sequence of decoded characters, in order");\n' % (k, pos, l)
            else:
                b += '  __CPROVER_assert(r == 0, "widen: an invalid sequence or an input that ends inside a sequence makes the conversion report failure (never a truncated result)");\n'
            b += '  VF_PROBE(); }\n'
            hc += b
            cases.append(('h_widen_%s' % tag, n, 'widen, %d narrow character(s) parsed as sequences %s (0 = invalid lead, longer than the rest = incomplete)' % (n, [l for (_, l) in st])))
    P.generated['cvt_cases.c'] = hc
    uc = P.unit('cvt', 'cvt.cpp', harness=['cvt_h.c', 'cvt_cases.c'], inline=True, maxb=16)
    for nm, n, what in cases:
        uc.lemma(nm, cls='B', unwind=18, unwind_files={'codecvt.hpp': n + 4, 'vf_cvt_': n + 3}, bound='strings of exactly %d characters: every character value, the stated encoding lengths (all length vectors are enumerated as separate jobs)' % n,
                 backends=['sat'], native=False, timeout=900, mem=16, assumed=[FACET], what=what + ': the complete conversion or a reported failure, never a truncated result')
    return P
