// C15 shim: fcppt::impl::codecvt (the loop behind narrow_locale / widen_locale / to_std_wstring / from_std_wstring) run against an
// ABSTRACT std::codecvt facet: do_out / do_in / do_max_length forward to harness hooks (an arbitrary deterministic variable-length
// encoding, assumed contract); std::use_facet is a harness stub that hands out this facet. The std::locale argument is never inspected.
#include <fcppt/impl/codecvt.hpp>
#include <fcppt/impl/codecvt_type.hpp>
#include <fcppt/optional/object.hpp>
#include <cstddef>
#include <cwchar>
#include <locale>
#include <string>
#include <string_view>
extern "C" {
int vf_cvt_out(wchar_t const *from, wchar_t const *from_end, wchar_t const **from_next, char *to, char *to_end, char **to_next);
int vf_cvt_in(char const *from, char const *from_end, char const **from_next, wchar_t *to, wchar_t *to_end, wchar_t **to_next);
int vf_cvt_max_length(void);
void *vf_facet_ptr;
}
struct absfacet : fcppt::impl::codecvt_type {
  absfacet() : fcppt::impl::codecvt_type(1U) {}
  result do_out(state_type &, wchar_t const *f, wchar_t const *fe, wchar_t const *&fn, char *t, char *te, char *&tn) const override { return static_cast<result>(vf_cvt_out(f, fe, &fn, t, te, &tn)); }
  result do_in(state_type &, char const *f, char const *fe, char const *&fn, wchar_t *t, wchar_t *te, wchar_t *&tn) const override { return static_cast<result>(vf_cvt_in(f, fe, &fn, t, te, &tn)); }
  int do_max_length() const noexcept override { return vf_cvt_max_length(); }
};
alignas(8) static char locblob[16];
extern "C" {
// returns 1 and the converted string (length *on, at most 16 characters copied) or 0 for a reported failure
int vf_narrow(wchar_t const *src, std::size_t n, char *out, std::size_t *on){
  absfacet f; vf_facet_ptr = static_cast<fcppt::impl::codecvt_type *>(&f);
  fcppt::optional::object<std::string> const r{fcppt::impl::codecvt<char>(std::wstring_view{src, n}, *reinterpret_cast<std::locale const *>(locblob), &fcppt::impl::codecvt_type::out)};
  if (!r.has_value()) return 0;
  *on = r.get_unsafe().size(); for (std::size_t i = 0; i < 16 && i < r.get_unsafe().size(); ++i) out[i] = r.get_unsafe()[i];
  return 1; }
int vf_widen(char const *src, std::size_t n, wchar_t *out, std::size_t *on){
  absfacet f; vf_facet_ptr = static_cast<fcppt::impl::codecvt_type *>(&f);
  fcppt::optional::object<std::wstring> const r{fcppt::impl::codecvt<wchar_t>(std::string_view{src, n}, *reinterpret_cast<std::locale const *>(locblob), &fcppt::impl::codecvt_type::in)};
  if (!r.has_value()) return 0;
  *on = r.get_unsafe().size(); for (std::size_t i = 0; i < 16 && i < r.get_unsafe().size(); ++i) out[i] = r.get_unsafe()[i];
  return 1; }
}
