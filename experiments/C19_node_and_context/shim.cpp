// C19 shim (sequential, node level only): the tree helpers that log::context is built on.
#include <fcppt/log/level.hpp>
#include <fcppt/log/name.hpp>
#include <fcppt/log/optional_level.hpp>
#include <fcppt/log/detail/context_tree.hpp>
#include <fcppt/log/detail/context_tree_node.hpp>
#include <fcppt/log/impl/find_or_create_child.hpp>
#include <fcppt/log/impl/find_child.hpp>
#include <fcppt/log/impl/find_child_const.hpp>
#include <fcppt/container/tree/object_impl.hpp>
#include <fcppt/cast/int_to_enum.hpp>
#include <fcppt/make_ref.hpp>
#include <fcppt/make_cref.hpp>
#include <fcppt/string.hpp>
namespace fl = fcppt::log;
using tree = fl::detail::context_tree;
static fl::optional_level lv(int x){ return x < 0 ? fl::optional_level{} : fl::optional_level{fcppt::cast::int_to_enum<fl::level>(x)}; }
static int out(fl::optional_level const &l){ return l.has_value() ? static_cast<int>(l.get_unsafe()) : -1; }
extern "C" unsigned vf_ctx_child(int root, int la){
  tree t{fl::detail::context_tree_node{fl::name{fcppt::string{}}, lv(root)}};
  unsigned bad = 0;
  fcppt::reference<tree> const a1{fl::impl::find_or_create_child(fcppt::make_ref(t), fl::name{fcppt::string{"a"}})};
  if (out(a1.get().value().level()) != root) bad |= 1U;                      // a new child inherits the level of its parent
  a1.get().value().level(lv(la));
  fcppt::reference<tree> const a2{fl::impl::find_or_create_child(fcppt::make_ref(t), fl::name{fcppt::string{"a"}})};
  if (&a1.get() != &a2.get() || t.size() != 1U) bad |= 2U;                   // an existing child is found, not duplicated
  if (out(a2.get().value().level()) != la) bad |= 4U;                        // and keeps its own level
  if (fl::impl::find_child_const(fcppt::make_cref(t), fl::name{fcppt::string{"b"}}).has_value()) bad |= 8U;   // a name that is no child is not found
  if (out(t.value().level()) != root) bad |= 16U;                            // the parent is untouched
  return bad; }
