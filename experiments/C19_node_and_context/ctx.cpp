// C19 shim (sequential): scenarios on a real fcppt::log::context (std::mutex, unique_ptr, tree of nodes with string names).
#include <fcppt/log/context.hpp>
#include <fcppt/log/level.hpp>
#include <fcppt/log/level_stream.hpp>
#include <fcppt/log/level_stream_array.hpp>
#include <fcppt/log/location.hpp>
#include <fcppt/log/name.hpp>
#include <fcppt/log/optional_level.hpp>
#include <fcppt/log/format/optional_function.hpp>
#include <fcppt/enum/array_init.hpp>
#include <fcppt/cast/int_to_enum.hpp>
#include <fcppt/string.hpp>
#include <iostream>
namespace fl = fcppt::log;
static fl::optional_level lv(int x){ return x < 0 ? fl::optional_level{} : fl::optional_level{fcppt::cast::int_to_enum<fl::level>(x)}; }
static int out(fl::optional_level const &l){ return l.has_value() ? static_cast<int>(l.get_unsafe()) : -1; }
static fl::location loc1(char const *a){ return fl::location{fl::name{fcppt::string{a}}}; }
static fl::location loc2(char const *a, char const *b){ return loc1(a) / fl::name{fcppt::string{b}}; }
#define CTX fl::context ctx{lv(root), fcppt::enum_::array_init<fl::level_stream_array>([](auto){ return fl::level_stream{std::clog, fl::format::optional_function{}}; })}
extern "C" {
int vf_ctx_only(int root){ CTX; return root; }
int vf_ctx_set_only(int root, int la){ CTX; ctx.set(loc1("a"), lv(la)); return root; }
int vf_ctx_set_get1(int root, int la){ CTX; ctx.set(loc1("a"), lv(la)); return out(ctx.get(loc1("a"))); }
int vf_ctx_get_root(int root){ CTX; return out(ctx.get(loc1("a"))); }
void vf_ctx_set_get(int root, int la, int *g_a, int *g_ab, int *g_c){ CTX; ctx.set(loc1("a"), lv(la)); *g_a = out(ctx.get(loc1("a"))); *g_ab = out(ctx.get(loc2("a", "b"))); *g_c = out(ctx.get(loc1("c"))); }
void vf_ctx_override(int root, int la, int lb, int *g_ab, int *g_a){ CTX; ctx.set(loc2("a", "b"), lv(lb)); ctx.set(loc1("a"), lv(la)); *g_ab = out(ctx.get(loc2("a", "b"))); *g_a = out(ctx.get(loc1("a"))); }
void vf_ctx_depth(int root, int lb, int *g_acb, int *g_ab, int *g_a){ CTX; ctx.set(loc2("a", "b"), lv(lb)); *g_acb = out(ctx.get(loc2("a", "c") / fl::name{fcppt::string{"b"}})); *g_ab = out(ctx.get(loc2("a", "b"))); *g_a = out(ctx.get(loc1("a"))); }
}
