"""C19 (exploration): the node-level helpers of log::context."""
from vf.plan import Plan


def make(tier):
    P = Plan('C19', level='model_checking', design_ref='DESIGN.md section 5 C19')
    h = 'void h_ctx_child(void){ VF_IN(u32, root); VF_IN(u32, la); __CPROVER_assume((i32)root >= -1 && (i32)root <= 5 && (i32)la >= -1 && (i32)la <= 5);\n  u32 bad = vf_ctx_child(root, la);\n'
    for k, nm in enumerate(['a new child inherits the level of its parent', 'an existing child is found, not duplicated', 'an existing child keeps its own level', 'a name that is no child is not found', 'the parent is untouched']):
        h += '  __CPROVER_assert((bad & %du) == 0, "%s");\n' % (1 << k, nm)
    h += '  VF_PROBE(); }\n'
    P.generated['c19_h.c'] = h
    L = 'libs/log/'
    u = P.unit('node', 'shim.cpp', harness=['../C09/harness.c', 'c19_h.c'], inline=True, maxb=8,
               srcs=[L + 'impl/src/log/impl/find_or_create_child.cpp', L + 'impl/src/log/impl/find_child.cpp', L + 'impl/src/log/impl/find_child_const.cpp', L + 'src/log/detail/context_tree_node.cpp', L + 'impl/src/log/impl/convert_level.cpp'])
    u.lemma('h_ctx_child', cls='B', unwind=3, mem=24, backends=['sat'], timeout=1500, cbmc=['--slice-formula', '--unwindset', 'vf_memmove.0:10,vf_memmove.1:10,vf_memset.0:10'], bound='one parent, names "a" / "b"', what='find_or_create_child / find_child_const')
    LOCK = ('static int g_locked, g_lock_ops, g_bad_lock;\n'
            'pthread_mutex_lock_ret_t pthread_mutex_lock(pthread_mutex_lock_arg0_t m){ if (g_locked) g_bad_lock = 1; g_locked = 1; ++g_lock_ops; return 0; }\n'
            'pthread_mutex_unlock_ret_t pthread_mutex_unlock(pthread_mutex_unlock_arg0_t m){ if (!g_locked) g_bad_lock = 1; g_locked = 0; return 0; }\n')
    RNG = lambda *v: '__CPROVER_assume(%s);' % ' && '.join('(i32)%s >= -1 && (i32)%s <= 5' % (x, x) for x in v)
    LK = lambda n: '  __CPROVER_assert(!g_locked && !g_bad_lock && g_lock_ops == %d, "every public call takes the context mutex exactly once and releases it");\n' % n
    hc = LOCK
    hc += 'void h_ctx_get_root(void){ VF_IN(u32, root); %s u32 g = vf_ctx_get_root(root);\n  __CPROVER_assert(g == root, "get of a location without any set yields the root level");\n%s  VF_PROBE(); }\n' % (RNG('root'), LK(1))
    hc += 'void h_ctx_only(void){ VF_IN(u32, root); %s u32 g = vf_ctx_only(root);\n  __CPROVER_assert(g == root && g_lock_ops == 0, "construction and destruction only");\n  VF_PROBE(); }\n' % RNG('root')
    hc += 'void h_ctx_set_only(void){ VF_IN(u32, root); VF_IN(u32, la); %s u32 g = vf_ctx_set_only(root, la);\n%s  VF_PROBE(); }\n' % (RNG('root', 'la'), LK(1))
    hc += 'void h_ctx_set_get1(void){ VF_IN(u32, root); VF_IN(u32, la); %s u32 g = vf_ctx_set_get1(root, la);\n  __CPROVER_assert(g == la, "get(a) is the level set on a");\n%s  VF_PROBE(); }\n' % (RNG('root', 'la'), LK(2))
    hc += ('void h_ctx_set_get(void){ VF_IN(u32, root); VF_IN(u32, la); %s u32 ga, gab, gc; vf_ctx_set_get(root, la, &ga, &gab, &gc);\n'
           '  __CPROVER_assert(ga == la, "get(a) is the level set on a");\n  __CPROVER_assert(gab == la, "get(a::b) is the level of the deepest set prefix a");\n  __CPROVER_assert(gc == root, "get(c) is the root level");\n%s  VF_PROBE(); }\n') % (RNG('root', 'la'), LK(4))
    hc += ('void h_ctx_override(void){ VF_IN(u32, root); VF_IN(u32, la); VF_IN(u32, lb); %s u32 gab, ga; vf_ctx_override(root, la, lb, &gab, &ga);\n'
           '  __CPROVER_assert(gab == la && ga == la, "a later set on the prefix a overrides the earlier set on a::b (latest set on a prefix wins)");\n%s  VF_PROBE(); }\n') % (RNG('root', 'la', 'lb'), LK(4))
    hc += ('void h_ctx_depth(void){ VF_IN(u32, root); VF_IN(u32, lb); %s u32 gacb, gab, ga; vf_ctx_depth(root, lb, &gacb, &gab, &ga);\n'
           '  __CPROVER_assert(gab == lb, "get(a::b) is the level set on a::b");\n  __CPROVER_assert(ga == root, "a was created with the root level");\n'
           '  __CPROVER_assert(gacb == root, "get(a::c::b) stops at the missing component c: the level of a, not of the node a::b with the same last name");\n%s  VF_PROBE(); }\n') % (RNG('root', 'lb'), LK(4))
    P.generated['c19_ctx_h.c'] = hc
    uc = P.unit('ctx', 'ctx.cpp', harness=['../C09/harness.c', 'c19_ctx_h.c'], inline=True, maxb=8, defines=['ENABLE_THREADS'],
                srcs=[L + 'src/log/context.cpp', L + 'src/log/detail/context_tree_node.cpp', L + 'impl/src/log/impl/find_or_create_child.cpp', L + 'impl/src/log/impl/find_child.cpp', L + 'impl/src/log/impl/find_child_const.cpp',
                      L + 'impl/src/log/impl/convert_level.cpp', L + 'src/log/location.cpp', L + 'src/log/level_stream.cpp'])
    US = 'vf_memmove.0:10,vf_memmove.1:10,vf_memset.0:10'
    for nm in ('h_ctx_only', 'h_ctx_set_only', 'h_ctx_set_get1', 'h_ctx_get_root', 'h_ctx_set_get', 'h_ctx_override', 'h_ctx_depth'):
        uc.lemma(nm, cls='B', unwind=3, unwind_files={'/c++/12/array': 8, 'vf_memmove.': 10, 'vf_memset.': 10}, mem=40, backends=['sat'], timeout=1800, cbmc=['--slice-formula'], bound='constant names', what='context scenario')
    return P
