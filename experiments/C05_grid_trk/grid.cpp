// C05 shim (grid on std::vector storage, own translation unit): grid::map / grid::resize with the instrumented element type
#include <fcppt/container/grid/object.hpp>
#include <fcppt/container/grid/map.hpp>
#include <fcppt/container/grid/resize.hpp>
#include <utility>
extern "C" { void vf_mark(void); void vf_trk_copy(int id); void vf_trk_move(int id); void vf_trk_read_moved(int id); void vf_trk_assign_over(int id); }
struct trk {
  int id; bool moved_from;
  explicit trk(int i) : id(i), moved_from(false) {}
  trk(trk const &o) : id(o.id), moved_from(false) { if (o.moved_from) vf_trk_read_moved(o.id); vf_trk_copy(o.id); }
  trk(trk &&o) noexcept : id(o.id), moved_from(false) { if (o.moved_from) vf_trk_read_moved(o.id); o.moved_from = true; vf_trk_move(o.id); }
  trk &operator=(trk const &o) { if (o.moved_from) vf_trk_read_moved(o.id); vf_trk_assign_over(id); id = o.id; moved_from = false; vf_trk_copy(o.id); return *this; }
  trk &operator=(trk &&o) noexcept { if (o.moved_from) vf_trk_read_moved(o.id); vf_trk_assign_over(id); id = o.id; moved_from = false; o.moved_from = true; vf_trk_move(o.id); return *this; }
};
namespace g = fcppt::container::grid;
using g2 = g::object<trk, 2>;
static g2 mkg(int a, int b){ return g2{g2::dim{2U, 1U}, [a, b](g2::pos const p){ return trk{p.x() == 0U ? a : b}; }}; }
static int at(g2 const &x, unsigned i){ trk const &t{x.get_unsafe(g2::pos{i, 0U})}; return t.moved_from ? -2 : t.id; }
extern "C" {
unsigned vf_grid_map_r(int a, int b){ unsigned bad = 0; g2 src{mkg(a, b)}; vf_mark();
  g2 const r{g::map(std::move(src), [](trk &&t){ return trk{std::move(t)}; })};
  if (r.size() != g2::dim{2U, 1U}) bad |= 1U; if (at(r, 0U) != a || at(r, 1U) != b) bad |= 2U; return bad; }
unsigned vf_grid_map_l(int a, int b){ unsigned bad = 0; g2 src{mkg(a, b)}; vf_mark();
  auto const r{g::map(src, [](trk const &t){ return t.id + 1000; })};
  if (r.get_unsafe(g2::pos{0U, 0U}) != a + 1000 || r.get_unsafe(g2::pos{1U, 0U}) != b + 1000) bad |= 1U; if (at(src, 0U) != a || at(src, 1U) != b) bad |= 2U; return bad; }
unsigned vf_grid_resize_r(int a, int b, int c){ unsigned bad = 0; g2 src{mkg(a, b)}; vf_mark();
  g2 const r{g::resize(std::move(src), g2::dim{3U, 1U}, [c](g2::pos){ return trk{c}; })};
  if (r.size() != g2::dim{3U, 1U}) bad |= 1U; if (at(r, 0U) != a || at(r, 1U) != b || at(r, 2U) != c) bad |= 2U; return bad; }
}
