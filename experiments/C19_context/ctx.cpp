#include <fcppt/log/context.hpp>
#include <fcppt/log/level_stream.hpp>
#include <fcppt/log/level_stream_array.hpp>
#include <fcppt/log/format/optional_function.hpp>
#include <fcppt/enum/array_init.hpp>
#include <iostream>
#include <fcppt/log/level.hpp>
#include <fcppt/log/location.hpp>
#include <fcppt/log/name.hpp>
#include <fcppt/log/optional_level.hpp>
#include <fcppt/cast/int_to_enum.hpp>
#include <fcppt/string.hpp>
namespace fl = fcppt::log;
static fl::optional_level lv(int x){ return x < 0 ? fl::optional_level{} : fl::optional_level{fcppt::cast::int_to_enum<fl::level>(x)}; }
static int out(fl::optional_level const &l){ return l.has_value() ? static_cast<int>(l.get_unsafe()) : -1; }
extern "C" int vf_ctx(int root, int la, int *g_a, int *g_ab, int *g_c){
  fl::context ctx{lv(root), fcppt::enum_::array_init<fl::level_stream_array>([](auto){ return fl::level_stream{std::clog, fl::format::optional_function{}}; })};
  ctx.set(fl::location{fl::name{fcppt::string{"a"}}}, lv(la));
  *g_a = out(ctx.get(fl::location{fl::name{fcppt::string{"a"}}}));
  *g_ab = out(ctx.get(fl::location{fl::name{fcppt::string{"a"}}} / fl::name{fcppt::string{"b"}}));
  *g_c = out(ctx.get(fl::location{fl::name{fcppt::string{"c"}}}));
  return 0; }
