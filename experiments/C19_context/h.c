#include "vf.h"
#define VF_MAXB 32
#include "vf_rt.h"
#include "gen.c"
#include "/verif/props/C09/harness.c"
static int g_locked, g_lock_ops;
pthread_mutex_lock_ret_t pthread_mutex_lock(pthread_mutex_lock_arg0_t m){ __CPROVER_assert(!g_locked, "mutex is not locked twice"); g_locked = 1; ++g_lock_ops; return 0; }
pthread_mutex_unlock_ret_t pthread_mutex_unlock(pthread_mutex_unlock_arg0_t m){ __CPROVER_assert(g_locked, "unlock only when locked"); g_locked = 0; return 0; }
void h_ctx(void){ u32 root, la; __CPROVER_assume((i32)root >= -1 && (i32)root <= 5 && (i32)la >= -1 && (i32)la <= 5);
  u32 ga, gab, gc; vf_ctx(root, la, &ga, &gab, &gc);
  __CPROVER_assert(ga == la, "get(a) == level set on a");
  __CPROVER_assert(gab == la, "get(a::b) == level of the deepest set prefix a");
  __CPROVER_assert(gc == root, "get(c) == root level");
  __CPROVER_assert(!g_locked && g_lock_ops == 4, "every public call takes and releases the lock once");
  VF_PROBE(); }
