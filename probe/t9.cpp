#include <fcppt/parse/detail/stream_decl.hpp>
#include <fcppt/parse/detail/stream_impl.hpp>
#include <fcppt/parse/position.hpp>
#include <fcppt/parse/location.hpp>
#include <fcppt/make_ref.hpp>
#include <istream>
using st = fcppt::parse::detail::stream<char>;
extern "C" void vf_stream_init(st *mem, std::istream *is){ new (mem) st{fcppt::make_ref(*is)}; }
extern "C" int vf_stream_get_char(st *s){ auto r = s->get_char(); return r.has_value() ? static_cast<unsigned char>(r.get_unsafe()) : -1; }
extern "C" void vf_stream_loc(st *s, unsigned long *line, unsigned long *col, long *off){
  auto p = s->get_position();
  *off = static_cast<long>(std::streamoff(p.pos()));
  auto const &l = p.location().get_unsafe(); *line = l.line().get(); *col = l.column().get();
}
