#include <stddef.h>
#include "mm.h"
#include "t8p.c"
void _ZNSaIcED2Ev(struct S54* a){}
void _ZNSaIcEC2ERKS_(struct S54* a, struct S54* b){}
void _ZNSaIcEC2Ev(struct S54* a){}
void _ZNSaIcEC1Ev(struct S54* a){}
void _ZNSaIcED1Ev(struct S54* a){}

/* ghost stream + abstract children */
static long g_off; static int g_seeks;
static int g_calls[3]; static long g_off_at_call[3]; static int g_res[3]; static int g_val[3]; static long g_newoff[3];
u32 vf_stream_get(void){ return (u32)-1; }
u64 vf_stream_tell(void){ return (u64)g_off; }
void vf_stream_seek(u64 o){ g_off = (long)o; ++g_seeks; }
u32 vf_child(u32 id, u32 *value){
  ++g_calls[id]; g_off_at_call[id] = g_off;
  g_off = g_newoff[id];            /* child moves the stream arbitrarily */
  *value = (u32)g_val[id];
  return (u32)g_res[id];
}
void h_alt(void){
  long off0; int r1, r2; int nd_res1, nd_res2, nd_v1, nd_v2; long nd_o1, nd_o2;
  g_res[1]=nd_res1; g_res[2]=nd_res2; g_val[1]=nd_v1; g_val[2]=nd_v2; g_newoff[1]=nd_o1; g_newoff[2]=nd_o2;
  __CPROVER_assume(off0 >= 0 && off0 < 1000000);
  __CPROVER_assume(g_res[1] >= 0 && g_res[1] <= 2 && g_res[2] >= 0 && g_res[2] <= 2);
  __CPROVER_assume(g_newoff[1] >= 0 && g_newoff[1] < 1000000 && g_newoff[2] >= 0 && g_newoff[2] < 1000000);
  g_off = off0; g_calls[1]=g_calls[2]=0;
  u32 out; u32 r = vf_alternative(&out);
  __CPROVER_assert(g_calls[1] == 1 && g_off_at_call[1] == off0, "left tried first, once, at the start position");
  if (g_res[1] == 0) {
    __CPROVER_assert(r == 0 && out == (u32)g_val[1] && g_calls[2] == 0 && g_off == g_newoff[1], "left success is the result; right not tried; input stays consumed");
  } else if (g_res[1] == 2) {
    __CPROVER_assert(r == 2 && g_calls[2] == 0, "fatal error stops backtracking");
  } else {
    __CPROVER_assert(g_calls[2] == 1 && g_off_at_call[2] == off0, "right tried once with the input rewound");
    if (g_res[2] == 0) __CPROVER_assert(r == 0 && out == (u32)g_val[2] && g_off == g_newoff[2], "right success is the result");
    else if (g_res[2] == 2) __CPROVER_assert(r == 2, "right fatal propagates");
    else __CPROVER_assert(r == 1, "both fail: non-fatal failure");
  }
}
void h_alt_bothfail(void){
  long off0 = 5; g_res[1]=1; g_res[2]=1; g_newoff[1]=9; g_newoff[2]=7;
  g_off = off0; g_calls[1]=g_calls[2]=0;
  u32 out; u32 r = vf_alternative(&out);
  __CPROVER_assert(r == 1, "both fail");
  __CPROVER_assert(g_off_at_call[2] == 5, "right at rewound");
}
void h_alt_nofail2(void){
  long off0; int nd_res1, nd_res2, nd_v1, nd_v2; long nd_o1, nd_o2;
  g_res[1]=nd_res1; g_res[2]=nd_res2; g_val[1]=nd_v1; g_val[2]=nd_v2; g_newoff[1]=nd_o1; g_newoff[2]=nd_o2;
  __CPROVER_assume(off0 >= 0 && off0 < 1000000);
  __CPROVER_assume(g_res[1] >= 0 && g_res[1] <= 2 && (g_res[2] == 0 || g_res[2] == 2));
  __CPROVER_assume(g_newoff[1] >= 0 && g_newoff[1] < 1000000 && g_newoff[2] >= 0 && g_newoff[2] < 1000000);
  g_off = off0; g_calls[1]=g_calls[2]=0;
  u32 out; u32 r = vf_alternative(&out);
  __CPROVER_assert(g_calls[1] == 1 && g_off_at_call[1] == off0, "left first");
  if (g_res[1] == 1) __CPROVER_assert(g_calls[2] == 1 && g_off_at_call[2] == off0, "right tried once with the input rewound");
}

void h_alt_split_1_0(void){   /* left fails non-fatally, right succeeds; everything else symbolic */
  long off0; int nd_v1, nd_v2; long nd_o1, nd_o2;
  g_res[1]=1; g_res[2]=0; g_val[1]=nd_v1; g_val[2]=nd_v2; g_newoff[1]=nd_o1; g_newoff[2]=nd_o2;
  g_off = off0; g_calls[1]=g_calls[2]=0;
  u32 out; u32 r = vf_alternative(&out);
  __CPROVER_assert(g_calls[1] == 1 && g_off_at_call[1] == off0, "left tried first, once, at the start position");
  __CPROVER_assert(g_calls[2] == 1 && g_off_at_call[2] == off0, "right tried once with the input rewound");
  __CPROVER_assert(r == 0 && out == (u32)g_val[2] && g_off == g_newoff[2], "right success is the result");
}
