#include <stddef.h>
#include "mm.h"
#include "t9.c"
void _ZNSaIcED2Ev(void* a){} void _ZNSaIcEC2ERKS_(void* a, void* b){} void _ZNSaIcEC2Ev(void* a){} void _ZNSaIcEC1Ev(void* a){} void _ZNSaIcED1Ev(void* a){}
/* ---- assumed contracts on std::basic_istream<char>, as executable stubs over a ghost stream ---- */
unsigned char __CPROVER_uninterpreted_text(unsigned long off);
u64 __CPROVER_uninterpreted_L(unsigned long off);   /* 1 + newlines before off */
u64 __CPROVER_uninterpreted_C(unsigned long off);   /* 1-based column of off   */
static unsigned long g_len, g_off; static _Bool g_eof, g_fail, g_bad;
_Bool _ZNKSt9basic_iosIcSt11char_traitsIcEE3badEv(struct S25* s){ return g_bad; }
_Bool _ZNKSt9basic_iosIcSt11char_traitsIcEE3eofEv(struct S25* s){ return g_eof; }
_Bool _ZNKSt9basic_iosIcSt11char_traitsIcEE4failEv(struct S25* s){ return g_fail || g_bad; }
void _ZNSt9basic_iosIcSt11char_traitsIcEE5clearESt12_Ios_Iostate(struct S25* s, u32 st){ g_eof = 0; g_fail = 0; g_bad = 0; }
u32 _ZNSi3getEv(struct S1* s){
  if (g_eof || g_fail || g_bad) { g_fail = 1; return (u32)-1; }
  if (g_off == g_len) { g_eof = 1; g_fail = 1; return (u32)-1; }
  return (u32)__CPROVER_uninterpreted_text(g_off++);
}
struct S26 _ZNSi5tellgEv(struct S1* s){ struct S26 r; memset(&r,0,sizeof r); r.f0 = (g_fail||g_bad) ? (u64)-1 : g_off; return r; }
struct S1* _ZNSi5seekgESt4fposI11__mbstate_tE(struct S1* s, u64 off, u64 st){ if(!(g_fail||g_bad)) { if (off <= g_len) g_off = off; else g_fail = 1; } return s; }
/* axioms of the spec functions, instantiated at o */
static void ax(unsigned long o){
  __CPROVER_assume(__CPROVER_uninterpreted_L(0) == 1 && __CPROVER_uninterpreted_C(0) == 1);
  unsigned char c = __CPROVER_uninterpreted_text(o);
  __CPROVER_assume(__CPROVER_uninterpreted_L(o+1) == __CPROVER_uninterpreted_L(o) + (c == '\n'));
  __CPROVER_assume(__CPROVER_uninterpreted_C(o+1) == (c == '\n' ? 1 : __CPROVER_uninterpreted_C(o) + 1));
}
void h_get_char(void){
  struct S1 is; u64 vt[4]; vt[0] = (u64)((char*)&is.f2 - (char*)&is); is.f0 = (fn6**)&vt[3];
  struct S0 st;
  unsigned long len, off; g_len = len; g_off = 0; g_eof = g_fail = g_bad = 0;
  vf_stream_init(&st, &is);
  /* arbitrary reachable state: offset `off`, location consistent with the spec functions (the invariant) */
  __CPROVER_assume(off <= len && len < (1ul<<40));
  g_off = off;
  st.f2.f0.f0 = __CPROVER_uninterpreted_L(off); st.f2.f1.f0 = __CPROVER_uninterpreted_C(off);
  ax(off);
  u32 r = vf_stream_get_char(&st);
  u64 line, col, o2; vf_stream_loc(&st, &line, &col, &o2);
  if (off < len) {
    __CPROVER_assert(r == (u32)__CPROVER_uninterpreted_text(off), "get_char returns the next unread character");
    __CPROVER_assert(o2 == off + 1, "offset advanced by one");
    __CPROVER_assert(line == __CPROVER_uninterpreted_L(off+1) && col == __CPROVER_uninterpreted_C(off+1), "line/column invariant preserved");
  } else {
    __CPROVER_assert(r == (u32)-1, "end of input yields a failure, never a character");
    __CPROVER_assert(o2 == off && line == __CPROVER_uninterpreted_L(off) && col == __CPROVER_uninterpreted_C(off), "position unchanged at end of input (eof cleared)");
  }
}
