#include <stdint.h>
/* test: loop contract on for(;;) with goto exits, and function contract */
uint32_t np2(uint32_t v)
__CPROVER_requires(v >= 1 && v <= 0x80000000u)
__CPROVER_ensures(__CPROVER_return_value >= v && (__CPROVER_return_value & (__CPROVER_return_value-1))==0 && (__CPROVER_return_value>>1) < v)
__CPROVER_assigns()
{
  uint32_t counter, ret; uint32_t t4, div; _Bool cmp;
  if ((v & (v-1))==0) return v;
  counter = v; ret = 1;
  for(;;)
  __CPROVER_assigns(counter, ret, t4, div, cmp)
  __CPROVER_loop_invariant(ret >= 1 && (ret & (ret-1))==0 && counter >= 1 && ret <= v && counter > 5 && (uint64_t)counter*ret <= v && (uint64_t)(counter+1)*ret > v )
  __CPROVER_decreases(counter)
  {
   while_cond:
    t4 = counter; div = t4/2; counter = div; cmp = div != 0;
    if (cmp) goto while_body; else goto while_end;
   while_body:
    ret = ret*2;
    continue;
  }
  while_end:
  return ret*2;
}
void h(void){ uint32_t v; np2(v); }
