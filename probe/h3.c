typedef unsigned int u32;
_Bool vf_cd(u32 a, u32 b, u32 *out);
void h_cd(void){ u32 a, b; u32 o; vf_cd(a,b,&o); }
