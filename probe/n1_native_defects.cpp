#include <fcppt/enum/from_int.hpp>
#include <fcppt/intrusive/list.hpp>
#include <fcppt/intrusive/base.hpp>
#include <fcppt/container/tree/object.hpp>
#include <fcppt/container/raw_vector/object_impl.hpp>
#include <fcppt/math/log2.hpp>
#include <iostream>
#include <vector>
enum class E : unsigned char { a, b, c, fcppt_maximum = c };
struct el : fcppt::intrusive::base<el> { int id; el(fcppt::intrusive::list<el>&l,int i):fcppt::intrusive::base<el>(l),id(i){} };
int main(){
  auto r = fcppt::enum_::from_int<E>(256u);
  std::cout << "from_int<E:uchar>(256u).has_value=" << r.has_value() << "\n";
  {
    fcppt::intrusive::list<el> l1, l2;
    auto *A = new el(l1,1); auto *B = new el(l1,2);
    l1 = std::move(l2); // from empty
    int n=0; for(auto &x : l1) { (void)x; ++n; }
    std::cout << "after l1 = move(empty): l1 has " << n << " elements\n";
    delete A;
    n=0; for(auto &x : l1) { std::cout << " member id " << x.id; ++n; }
    std::cout << "\nafter deleting A: l1 has " << n << " elements\n";
    delete B;
  }
  {
    using tree = fcppt::container::tree::object<int>;
    tree a(1), b(2); a.push_back(10); b.push_back(20);
    a.swap(b);
    auto &child = a.children().front();
    std::cout << "after swap: a's child " << child.value() << " parent is a? " << (child.parent().has_value() && &child.parent().get_unsafe().get() == &a) << "\n";
  }
  {
    fcppt::container::raw_vector::object<int> v; v.reserve(8); v.push_back(1); v.push_back(2); v.push_back(3);
    std::vector<int> s{1,2,3}; s.reserve(8);
    v.insert(v.begin(), v[1]); s.insert(s.begin(), s[1]);
    std::cout << "raw_vector alias insert: "; for(int x : v) std::cout << x << ' '; std::cout << " std::vector: "; for(int x : s) std::cout << x << ' '; std::cout << "\n";
  }
  return 0;
}
