#include <fcppt/container/grid/offset.hpp>
#include <fcppt/container/grid/next_position.hpp>
#include <fcppt/container/grid/end_position.hpp>
#include <fcppt/container/grid/pos.hpp>
#include <fcppt/container/grid/dim.hpp>
#include <fcppt/container/grid/min.hpp>
#include <fcppt/container/grid/sup.hpp>
#include <fcppt/math/vector/static.hpp>
#include <fcppt/math/dim/static.hpp>
#include <cstdint>
namespace g = fcppt::container::grid;
using T = unsigned;
extern "C" T vf_offset3(T x, T y, T z, T w, T h, T d){
  return g::offset(g::pos<T,3>{x,y,z}, g::dim<T,3>{w,h,d});
}
extern "C" void vf_next3(T const *cur, T const *mn, T const *sp, T *out){
  auto r = g::next_position(g::pos<T,3>{cur[0],cur[1],cur[2]}, g::min<T,3>{g::pos<T,3>{mn[0],mn[1],mn[2]}}, g::sup<T,3>{g::pos<T,3>{sp[0],sp[1],sp[2]}});
  out[0]=r.x(); out[1]=r.y(); out[2]=r.z();
}
