typedef unsigned int u32;
u32 _ZN5fcppt4math15next_power_of_2IjEET_S2_(u32);
_Bool _ZN5fcppt4math13is_power_of_2IjEEbT_(u32);
void h_np2(void){ u32 x; _ZN5fcppt4math15next_power_of_2IjEET_S2_(x); }
void h_ip2(void){ u32 x; _ZN5fcppt4math13is_power_of_2IjEEbT_(x); }
