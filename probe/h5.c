typedef unsigned int u32; typedef unsigned long u64; typedef unsigned char u8;
_Bool vf_trunc_i64_u8(u64 s, u8 *out);
_Bool vf_box_contains_point(u32 *b, u32 *p);
void h_trunc(void){ u64 s; u8 o; vf_trunc_i64_u8(s,&o); }
void h_box(void){ u32 b[4]; u32 p[2]; vf_box_contains_point(b,p); }
