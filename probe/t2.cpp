#include <fcppt/math/next_power_of_2.hpp>
#include <fcppt/math/ceil_div.hpp>
#include <cstdint>
extern "C" uint32_t vf_np2(uint32_t x){ return fcppt::math::next_power_of_2(x); }
extern "C" bool vf_cd(uint32_t a, uint32_t b, uint32_t *out){ auto r = fcppt::math::ceil_div(a,b); if(r.has_value()){ *out = r.get_unsafe(); return true;} return false; }
