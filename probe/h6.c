typedef unsigned int u32; typedef unsigned long u64; typedef unsigned char u8;
struct bf2 { u8 w[2]; };
_Bool vf_bf_get(struct bf2 *a, u32 e);
void vf_bf_not(struct bf2 *a, struct bf2 *out);
void vf_bf_set(struct bf2 *a, u32 e, _Bool v);
_Bool vf_bf_eq(struct bf2 *a, struct bf2 *b);
void h_get(void){ struct bf2 a; u32 e; vf_bf_get(&a,e); }
/* lemma: complement then compare with bitwise-built complement */
void h_not_lemma(void){
  struct bf2 a, n, m; 
  a.w[1] &= 1; /* padding clean: reachable states */
  vf_bf_not(&a,&n);
  m.w[0]=0; m.w[1]=0;
  for(u32 e=0;e<9;++e) vf_bf_set(&m,e,!vf_bf_get(&a,e));
  __CPROVER_assert(vf_bf_eq(&n,&m), "C10: ~a equals the bitfield with exactly the complementary enumerators");
}
