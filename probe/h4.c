typedef unsigned int u32;
u32 vf_offset3(u32 x, u32 y, u32 z, u32 w, u32 h, u32 d);
void h_off(void){ u32 x,y,z,w,h,d; vf_offset3(x,y,z,w,h,d); }
