#include <fcppt/math/matrix/static.hpp>
#include <fcppt/math/matrix/arithmetic.hpp>
#include <fcppt/math/matrix/determinant.hpp>
#include <fcppt/math/matrix/transpose.hpp>
#include <fcppt/math/matrix/adjugate.hpp>
#include <fcppt/math/matrix/identity.hpp>
#include <fcppt/math/matrix/comparison.hpp>
#include <fcppt/math/matrix/row.hpp>
struct z8 { unsigned char v; 
  friend z8 operator+(z8 a, z8 b){ return z8{static_cast<unsigned char>(a.v+b.v)}; }
  friend z8 operator-(z8 a, z8 b){ return z8{static_cast<unsigned char>(a.v-b.v)}; }
  friend z8 operator*(z8 a, z8 b){ return z8{static_cast<unsigned char>(a.v*b.v)}; }
  friend z8 operator-(z8 a){ return z8{static_cast<unsigned char>(-a.v)}; }
  friend bool operator==(z8 a, z8 b){ return a.v==b.v; }
  z8 &operator+=(z8 b){ v = static_cast<unsigned char>(v+b.v); return *this; }
  z8 &operator-=(z8 b){ v = static_cast<unsigned char>(v-b.v); return *this; }
  z8 &operator*=(z8 b){ v = static_cast<unsigned char>(v*b.v); return *this; }
};
#include <fcppt/make_literal_fwd.hpp>
namespace fcppt { template<> struct make_literal<z8> { using decorated_type = z8; template<typename A> static constexpr z8 get(A const a) noexcept { return z8{static_cast<unsigned char>(a)}; } }; }
using m2 = fcppt::math::matrix::static_<z8,2,2>;
static m2 mk2(unsigned char const *a){ return m2{fcppt::math::matrix::row(z8{a[0]},z8{a[1]}),fcppt::math::matrix::row(z8{a[2]},z8{a[3]})}; }
extern "C" bool vf_det_mult2(unsigned char const *a, unsigned char const *b){ m2 A=mk2(a),B=mk2(b); return fcppt::math::matrix::determinant(A*B) == fcppt::math::matrix::determinant(A) * fcppt::math::matrix::determinant(B);}
extern "C" bool vf_assoc2(unsigned char const *a, unsigned char const *b, unsigned char const *c){ m2 A=mk2(a),B=mk2(b),C=mk2(c); return (A*B)*C == A*(B*C);}
extern "C" bool vf_adj2(unsigned char const *a){ m2 A=mk2(a); return A*fcppt::math::matrix::adjugate(A) == fcppt::math::matrix::determinant(A) * fcppt::math::matrix::identity<m2>(); }
using m3 = fcppt::math::matrix::static_<z8,3,3>;
static m3 mk(unsigned char const *a){ return m3{fcppt::math::matrix::row(z8{a[0]},z8{a[1]},z8{a[2]}),fcppt::math::matrix::row(z8{a[3]},z8{a[4]},z8{a[5]}),fcppt::math::matrix::row(z8{a[6]},z8{a[7]},z8{a[8]})}; }
extern "C" bool vf_det_mult(unsigned char const *a, unsigned char const *b){
  m3 A = mk(a), B = mk(b);
  return fcppt::math::matrix::determinant(A*B) == fcppt::math::matrix::determinant(A) * fcppt::math::matrix::determinant(B);
}
extern "C" bool vf_assoc(unsigned char const *a, unsigned char const *b, unsigned char const *c){
  m3 A = mk(a), B = mk(b), C = mk(c);
  return (A*B)*C == A*(B*C);
}
