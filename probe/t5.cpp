#include <fcppt/container/raw_vector/object_impl.hpp>
#include <fcppt/container/bitfield/object.hpp>
#include <fcppt/container/bitfield/operators.hpp>
#include <fcppt/container/bitfield/comparison.hpp>
#include <fcppt/container/bitfield/is_subset_eq.hpp>
#include <fcppt/intrusive/list.hpp>
#include <fcppt/intrusive/base.hpp>
#include <fcppt/either/object.hpp>
#include <fcppt/either/bind.hpp>
#include <fcppt/either/map.hpp>
#include <fcppt/optional/bind.hpp>
#include <fcppt/optional/map.hpp>
#include <fcppt/variant/match.hpp>
#include <fcppt/variant/object.hpp>
#include <fcppt/cast/truncation_check.hpp>
#include <fcppt/math/box/object.hpp>
#include <fcppt/math/box/intersection.hpp>
#include <fcppt/math/box/contains_point.hpp>
#include <fcppt/cyclic_iterator.hpp>
#include <fcppt/make_int_range.hpp>
#include <cstdint>
using rv = fcppt::container::raw_vector::object<int>;
extern "C" void vf_rv_insert(rv *v, std::size_t pos, int val){ v->insert(v->begin()+pos, val); }
extern "C" void vf_rv_erase(rv *v, std::size_t pos){ v->erase(v->begin()+pos); }
enum class E9 { a,b,c,d,e,f,g,h,i, fcppt_maximum = i };
using bf = fcppt::container::bitfield::object<E9, std::uint8_t>;
extern "C" void vf_bf_not(bf const *a, bf *out){ *out = ~*a; }
extern "C" bool vf_bf_eq(bf const *a, bf const *b){ return *a == *b; }
extern "C" bool vf_bf_get(bf const *a, unsigned e){ return a->get(static_cast<E9>(e)); }
extern "C" void vf_bf_set(bf *a, unsigned e, bool v){ a->set(static_cast<E9>(e), v); }
struct elem : fcppt::intrusive::base<elem> { explicit elem(fcppt::intrusive::list<elem>&l) : fcppt::intrusive::base<elem>(l) {} };
extern "C" void vf_il_unlink(elem *e){ e->unlink(); }
using ei = fcppt::either::object<int, unsigned>;
extern "C" int vf_either_bind(bool s, int f, unsigned v, long (*k)(unsigned)){
  ei e = s ? ei{v} : ei{f};
  auto r = fcppt::either::map(e, [k](unsigned x){ return k(x); });
  return r.has_success() ? int(r.get_success_unsafe()) : -1;
}
extern "C" bool vf_trunc_i64_u8(std::int64_t s, std::uint8_t *out){ auto r = fcppt::cast::truncation_check<std::uint8_t>(s); if(r.has_value()){*out=r.get_unsafe(); return true;} return false; }
using box2 = fcppt::math::box::object<int,2>;
extern "C" bool vf_box_contains_point(int const *b, int const *p){
  box2 bx{box2::vector{b[0],b[1]}, box2::dim{b[2],b[3]}};
  return fcppt::math::box::contains_point(bx, box2::vector{p[0],p[1]});
}
