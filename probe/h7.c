#include <stddef.h>
#include "mm.h"
#include "t5p.c"
#define N 3
void h_rv_insert(void){
  struct S0 v; u64 cap, size, pos; u32 val;
  __CPROVER_assume(cap <= N && size <= cap && pos <= size);
  u32 *mem = cap ? malloc(cap*4) : 0;
  __CPROVER_assume(cap == 0 || mem != 0);
  v.f0.f1 = mem; v.f0.f2 = mem + size; v.f0.f3 = mem + cap;
  u32 old[N];
  for (u64 i=0;i<N;++i) if (i<size) old[i]=mem[i];
  vf_rv_insert(&v,pos,val);
  u32 *f = v.f0.f1, *l = v.f0.f2, *c = v.f0.f3;
  __CPROVER_assert(__CPROVER_same_object(f,l) && __CPROVER_same_object(f,c), "well-formed: one allocation");
  __CPROVER_assert(l - f == (i64)size + 1, "size+1");
  __CPROVER_assert(c - f >= l - f, "capacity >= size");
  for (u64 i=0;i<=N;++i) if (i<=size) {
    u32 expect = i < pos ? old[i] : i == pos ? val : old[i-1];
    __CPROVER_assert(f[i] == expect, "contents == vector model after insert");
  }
}
