#include <stddef.h>
#include "mm.h"
#include "t7p.c"
void h_det(void){ u8 a[9], b[9]; __CPROVER_assert(vf_det_mult(a,b), "det(AB)=det(A)det(B)"); }
void h_assoc(void){ u8 a[9], b[9], c[9]; __CPROVER_assert(vf_assoc(a,b,c), "(AB)C=A(BC)"); }
void h_det2(void){ u8 a[4], b[4]; __CPROVER_assert(vf_det_mult2(a,b), "det(AB)=det(A)det(B) 2x2"); }
void h_assoc2(void){ u8 a[4], b[4], c[4]; __CPROVER_assert(vf_assoc2(a,b,c), "(AB)C=A(BC) 2x2"); }
void h_adj2(void){ u8 a[4]; __CPROVER_assert(vf_adj2(a), "A adj(A) = det(A) I 2x2"); }
