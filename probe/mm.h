#define VF_MAXB 32
void *vf_memset(void *d, int c, unsigned long n){ for (unsigned long i=0;i<VF_MAXB;++i) if (i<n) ((unsigned char*)d)[i]=(unsigned char)c; return d; }
void *vf_memmove(void *d, const void *s, unsigned long n){
  unsigned char tmp[VF_MAXB];
  __CPROVER_assert(n <= VF_MAXB, "memmove model bound");
  for (unsigned long i=0;i<VF_MAXB;++i) if (i<n) tmp[i]=((const unsigned char*)s)[i];
  for (unsigned long i=0;i<VF_MAXB;++i) if (i<n) ((unsigned char*)d)[i]=tmp[i];
  return d;
}
