#include <fcppt/parse/alternative_decl.hpp>
#include <fcppt/parse/alternative_impl.hpp>
#include <fcppt/parse/basic_stream_decl.hpp>
#include <fcppt/parse/basic_stream_impl.hpp>
#include <fcppt/parse/tag.hpp>
#include <fcppt/parse/result.hpp>
#include <fcppt/parse/error.hpp>
#include <fcppt/parse/fatal_tag.hpp>
#include <fcppt/parse/make_success.hpp>
#include <fcppt/parse/position.hpp>
#include <fcppt/parse/location.hpp>
#include <fcppt/parse/skipper/epsilon.hpp>
#include <fcppt/either/make_failure.hpp>
#include <fcppt/either/match.hpp>
#include <fcppt/optional/object.hpp>
#include <fcppt/make_ref.hpp>
#include <fcppt/reference.hpp>
#include <string>
extern "C" {
  // harness hooks (defined in the C harness)
  int  vf_stream_get(void);            // -1 for eof
  long vf_stream_tell(void);
  void vf_stream_seek(long);
  int  vf_child(int id, int *value);   // 0 success, 1 failure, 2 fatal failure
}
struct abs_stream final : fcppt::parse::basic_stream<char> {
  abs_stream() = default;
  ~abs_stream() override = default;
  fcppt::optional::object<char> get_char() override { int c = vf_stream_get(); return c < 0 ? fcppt::optional::object<char>{} : fcppt::optional::object<char>{static_cast<char>(c)}; }
  fcppt::parse::position<char> get_position() const override { return fcppt::parse::position<char>{ std::char_traits<char>::pos_type{vf_stream_tell()}, fcppt::parse::position<char>::optional_location{} }; }
  void set_position(fcppt::parse::position<char> const &p) override { vf_stream_seek(static_cast<long>(std::streamoff(p.pos()))); }
};
template<int Id>
struct abs_parser : private fcppt::parse::tag {
  using result_type = int;
  template <typename Ch, typename Skipper>
  fcppt::parse::result<Ch,int> parse(fcppt::reference<fcppt::parse::basic_stream<Ch>>, Skipper const &) const {
    int v = 0; int r = vf_child(Id, &v);
    if (r == 0) return fcppt::parse::make_success<Ch>(int{v});
    if (r == 1) return fcppt::either::make_failure<int>(fcppt::parse::error<Ch>{std::basic_string<Ch>{"x"}});
    return fcppt::either::make_failure<int>(fcppt::parse::error<Ch>{std::basic_string<Ch>{"y"}, fcppt::parse::fatal_tag{}});
  }
};
// returns 0 success (value in *out), 1 failure, 2 fatal
extern "C" int vf_alternative(int *out){
  abs_stream s;
  fcppt::parse::alternative<abs_parser<1>, abs_parser<2>> const p{abs_parser<1>{}, abs_parser<2>{}};
  auto r = p.parse(fcppt::make_ref(static_cast<fcppt::parse::basic_stream<char>&>(s)), fcppt::parse::skipper::epsilon{});
  return fcppt::either::match(r,
    [](fcppt::parse::error<char> const &e){ return e.is_fatal() ? 2 : 1; },
    [out](auto const &v){ *out = v; return 0; });
}
