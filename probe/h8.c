#include <stddef.h>
#include "mm.h"
#include "t5p.c"
unsigned long __CPROVER_uninterpreted_k(unsigned);
static int calls;
static unsigned last_arg;
u64 kk(u32 x){ ++calls; last_arg = x; return __CPROVER_uninterpreted_k(x); }
void h_either_map(void){
  _Bool s; int f; unsigned v; s = (f & 64) != 0;
  calls = 0;
  int r = vf_either_bind(s, f, v, (void*)kk);
  if (s) { __CPROVER_assert(calls == 1 && last_arg == v, "continuation invoked exactly once with the success value");
           unsigned long e = __CPROVER_uninterpreted_k(v); __CPROVER_assert(r == (int)e, "map result is f(value)"); }
  else   { __CPROVER_assert(calls == 0, "continuation never invoked for failure"); __CPROVER_assert(r == -1, "failure preserved"); }
}
