/* native replay mode: the harness / contract is evaluated on the real code compiled by g++ with ASan+UBSan */
#ifndef VF_NATIVE_H
#define VF_NATIVE_H
#include <stdio.h>
#include <stdlib.h>
#include <string.h>
#include <stddef.h>
typedef unsigned char u8; typedef unsigned short u16; typedef unsigned int u32; typedef unsigned long u64; typedef unsigned __int128 u128;
typedef signed char i8; typedef short i16; typedef int i32; typedef long i64; typedef __int128 i128;
static int vf_native_failed = 0;
#define __CPROVER_assert(c, msg) do { if (!(c)) { printf("ASSERTION-FAILED: %s\n", msg); vf_native_failed = 1; } } while (0)
#define __CPROVER_assume(c) do { if (!(c)) { printf("ASSUMPTION-NOT-MET: %s\n", #c); exit(3); } } while (0)
#define __CPROVER_return_value vf_ret
#define __CPROVER_is_fresh(p, n) ((*(void **)&(p) = calloc(1, (n) ? (n) : 1)) != 0)
#define __CPROVER_overflow_plus(a, b) __builtin_add_overflow_p(a, b, (__typeof__((a) + (b)))0)
#define __CPROVER_overflow_minus(a, b) __builtin_sub_overflow_p(a, b, (__typeof__((a) - (b)))0)
#define __CPROVER_overflow_mult(a, b) __builtin_mul_overflow_p(a, b, (__typeof__((a) * (b)))0)
#define VF_PROBE() do { } while (0)
#define VF_IMP(a, b) (!(a) || (b))
#define VF_MUL32(a, b) ((unsigned int)((a) * (b)))
#define VF_MUL64(a, b) ((unsigned long)((a) * (b)))
#define VF_REPLAY_VALUE(n, v) static const unsigned long long vf_rv_##n = (unsigned long long)(v);
#define VF_IN(T, n) T n = (T)vf_rv_##n
#endif
