/* runtime model shared by every generated translation unit (trusted; listed in evidence) */
#ifndef VF_RT_H
#define VF_RT_H
#include <stddef.h>
#include <string.h>
#include <stdlib.h>
#include <math.h>
#include <wchar.h>
typedef unsigned char u8; typedef unsigned short u16; typedef unsigned int u32; typedef unsigned long u64; typedef unsigned __int128 u128;
typedef signed char i8; typedef short i16; typedef int i32; typedef long i64; typedef __int128 i128;
#ifndef VF_MAXB
#define VF_MAXB 32
#endif
/* operator new: malloc that never fails (DESIGN 3.1 item 5) */
#ifdef VF_NEW_SPLIT
/* the same allocation, case-split over the requested size (sizes 0..VF_NEW_SPLIT get an object of exactly that CONSTANT size, which keeps
   byte-level accesses to it cheap for the solver; larger requests fall back to the symbolic-size allocation): semantics unchanged */
static void *vf_new(u64 n){ void *p;
  if (n > VF_NEW_SPLIT) p = malloc(n);
  else { p = 0; for (u64 k = 0; k <= VF_NEW_SPLIT; ++k) if (n == k) p = malloc(k == 0 ? 1 : k); }
  __CPROVER_assume(p != 0); return p; }
#else
static void *vf_new(u64 n){ void *p = malloc(n); __CPROVER_assume(p != 0); return p; }
#endif
static void vf_delete(void *p){ free(p); }
/* memmove/memcpy/memset with a SYMBOLIC size: byte-loop model, bound VF_MAXB (constant sizes use CBMC's built-ins) */
static void *vf_memset(void *d, int c, unsigned long n){
  __CPROVER_assert(n <= VF_MAXB, "memset model bound");
  for (unsigned long i=0;i<VF_MAXB;++i) if (i<n) ((unsigned char*)d)[i]=(unsigned char)c; return d; }
static void *vf_memmove(void *d, const void *s, unsigned long n){
  unsigned char tmp[VF_MAXB];
  __CPROVER_assert(n <= VF_MAXB, "memmove model bound");
  for (unsigned long i=0;i<VF_MAXB;++i) if (i<n) tmp[i]=((const unsigned char*)s)[i];
  for (unsigned long i=0;i<VF_MAXB;++i) if (i<n) ((unsigned char*)d)[i]=tmp[i];
  return d;
}
/* wide-character libc helpers (no CBMC built-in): plain loop models */
static size_t vf_wcslen(const wchar_t *s){ size_t n = 0; while (s[n] != 0) ++n; return n; }
static wchar_t *vf_wmemcpy(wchar_t *d, const wchar_t *s, size_t n){ for (size_t i = 0; i < n; ++i) d[i] = s[i]; return d; }
static wchar_t *vf_wmemmove(wchar_t *d, const wchar_t *s, size_t n){ if (d < s) { for (size_t i = 0; i < n; ++i) d[i] = s[i]; } else { for (size_t i = n; i > 0; --i) d[i - 1] = s[i - 1]; } return d; }
static wchar_t *vf_wmemset(wchar_t *d, wchar_t c, size_t n){ for (size_t i = 0; i < n; ++i) d[i] = c; return d; }
#define wcslen vf_wcslen
#define wmemcpy vf_wmemcpy
#define wmemmove vf_wmemmove
#define wmemset vf_wmemset
#endif
