/* harness macros, CBMC mode (the native replay uses vf_native.h instead) */
#ifndef VF_H
#define VF_H
#define VF_PROBE() __CPROVER_assert(0, "VF_PROBE reachable")
/* symbolic harness input: plain uninitialised local = nondeterministic value of the full type */
#define VF_IN(T, n) T n
#define VF_IMP(a, b) (!(a) || (b))
#endif
