/* harness macros, CBMC mode (the native replay uses vf_native.h instead) */
#ifndef VF_H
#define VF_H
#define VF_PROBE() __CPROVER_assert(0, "VF_PROBE reachable")
/* symbolic harness input: plain uninitialised local = nondeterministic value of the full type */
#define VF_IN(T, n) T n
#define VF_IMP(a, b) (!(a) || (b))
/* units built with ufmul=True: every non-constant 32/64-bit product of the code AND of the contract is the same
   uninterpreted function, so a definitional contract pins the exact operands and association and the proof holds
   for every binary operation in place of * (in particular for machine multiplication) */
unsigned int __CPROVER_uninterpreted_mul32(unsigned int, unsigned int);
unsigned long __CPROVER_uninterpreted_mul64(unsigned long, unsigned long);
#ifdef VF_UFMUL
#define VF_UFMUL32(a, b) __CPROVER_uninterpreted_mul32((a), (b))
#define VF_UFMUL64(a, b) __CPROVER_uninterpreted_mul64((a), (b))
#define VF_MUL32(a, b) __CPROVER_uninterpreted_mul32((a), (b))
#define VF_MUL64(a, b) __CPROVER_uninterpreted_mul64((a), (b))
#else
#define VF_MUL32(a, b) ((unsigned int)((a) * (b)))
#define VF_MUL64(a, b) ((unsigned long)((a) * (b)))
#endif
#endif
