#!/usr/bin/env python3
"""import a confirmed seeded change from /tmp/sw/out/<ID>_m<K> (tools/confirm_seed.sh wrote confirm.log there) into /verif/seeded/<ID>_m<K>/"""
import sys, os, re, json, shutil
pid, k = sys.argv[1], sys.argv[2]
src = '/tmp/sw/out/%s_m%s' % (pid, k)
log = open(os.path.join(src, 'confirm.log')).read()
if not log.rstrip().endswith('CONFIRMED') or 'NOT-CONFIRMED' in log:
    print('NOT CONFIRMED', pid, k); print(log[-800:]); sys.exit(1)
dst = '/verif/seeded/%s_m%s' % (pid, k)
os.makedirs(dst, exist_ok=True)
for f in ('patch.diff', 'demo.cpp', 'notes.txt'):
    shutil.copy(os.path.join(src, f), dst)
keep = [l for l in log.split('\n') if re.match(r'^(==|demo rc|patched build rc|\d+% tests passed|CONFIRMED|Total Test time)', l)]
open(os.path.join(dst, 'confirm.log'), 'w').write('\n'.join(keep) + '\n')
notes = open(os.path.join(src, 'notes.txt')).read()
json.dump({'property': pid, 'source': 'independent sub-agent given only the property text and a scratch worktree',
           'needs_to_manifest': notes[:1500],
           'confirmed_by_me': 'tools/confirm_seed.sh in the scratch worktree /tmp/sw/%s (outside /repo, removed afterwards): demo exits 0 on the clean tree; patch applies; full build ok; ctest 433/433 pass with the patch; demo exits non-zero with the patch (see confirm.log)' % pid,
           'detected_by': None}, open(os.path.join(dst, 'meta.json'), 'w'), indent=1)
print('imported', dst)
