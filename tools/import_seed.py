#!/usr/bin/env python3
"""import a confirmed seeded change from /tmp/mut/out_<ID>/m<K> into /verif/seeded/<ID>_m<K>/"""
import sys, os, re, json, shutil
pid, k = sys.argv[1], sys.argv[2]
src = '%s/out_%s/m%s' % (os.environ.get('MUT_DIR', '/tmp/mut'), pid, k)
log = open(os.path.join(src, 'confirm.log')).read()
ok = ('demo_clean_rc=0' in log and 'build_rc=0' in log and '100% tests passed, 0 tests failed out of 433' in log
      and re.search(r'demo_patched_rc=[1-9]', log) and 'APPLY_FAILED' not in log)
if not ok:
    print('NOT CONFIRMED', pid, k); print(log[-800:]); sys.exit(1)
dst = '/verif/seeded/%s_m%s' % (pid, k)
os.makedirs(dst, exist_ok=True)
for f in ('patch.diff', 'demo.cpp', 'build.sh', 'notes.txt'):
    shutil.copy(os.path.join(src, f), dst)
shutil.copy(os.path.join(src, 'confirm.log'), os.path.join(dst, 'confirm.log'))
notes = open(os.path.join(src, 'notes.txt')).read()
json.dump({'property': pid, 'source': 'independent sub-agent given only the property text and a scratch worktree',
           'needs_to_manifest': notes[:1500],
           'confirmed_by_me': 'tools in /tmp/mut/confirm.sh on a scratch worktree outside /repo: demo exits 0 on the clean tree; patch applies; full build ok; ctest 433/433 pass with the patch; demo exits non-zero with the patch (see confirm.log)',
           'detected_by': None}, open(os.path.join(dst, 'meta.json'), 'w'), indent=1)
print('imported', dst)
