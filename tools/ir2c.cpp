// ir2c prototype: LLVM 14 IR (clang -O0, typed pointers) -> C for CBMC.
#include <llvm/IR/LLVMContext.h>
#include <llvm/IR/Module.h>
#include <llvm/IR/Function.h>
#include <llvm/IR/Instructions.h>
#include <llvm/IR/IntrinsicInst.h>
#include <llvm/IR/Constants.h>
#include <llvm/IR/Operator.h>
#include <llvm/IR/Dominators.h>
#include <llvm/IR/DebugInfoMetadata.h>
#include <llvm/IR/CFG.h>
#include <llvm/Analysis/LoopInfo.h>
#include <llvm/IRReader/IRReader.h>
#include <llvm/Support/SourceMgr.h>
#include <llvm/Support/raw_ostream.h>
#include <llvm/Demangle/Demangle.h>
#include <map>
#include <set>
#include <string>
#include <vector>
#include <sstream>
#include <fstream>
#include <iostream>
#include <functional>

using namespace llvm;

[[noreturn]] static void die(const std::string &m)
{
  errs() << "ir2c: UNSUPPORTED: " << m << "\n";
  exit(2);
}

static std::string sanitize(StringRef s)
{
  std::string r;
  for (char c : s)
    r += (isalnum((unsigned char)c) || c == '_') ? c : '_';
  if (r.empty() || isdigit((unsigned char)r[0]))
    r = "_" + r;
  return r;
}

struct Contract
{
  std::vector<std::string> clauses; // raw __CPROVER_* lines for the function
  std::map<unsigned, std::vector<std::string>> loops; // loop ordinal -> clauses
};

struct Ctx
{
  Module &M;
  const DataLayout &DL;
  std::map<Type *, std::string> tnames;
  std::vector<std::string> typedefs_fwd, typedefs_def;
  std::set<Type *> defined, inprogress;
  unsigned tcount = 0;
  std::set<unsigned> oddw;
  bool ufmul = false;
  std::set<std::string> used_tnames;
  std::map<const GlobalValue *, std::string> gnames;
  std::set<std::string> used_gnames;
  std::map<std::string, Contract> contracts; // by demangled name or mangled
  explicit Ctx(Module &m) : M(m), DL(m.getDataLayout()) {}

  std::string ity(unsigned bits, bool sgn = false)
  {
    if (bits == 1)
      return "_Bool";
    if (bits == 8 || bits == 16 || bits == 32 || bits == 64)
      return std::string(sgn ? "i" : "u") + std::to_string(bits);
    if (bits == 128)
      return sgn ? "i128" : "u128";
    oddw.insert(bits);
    return std::string(sgn ? "i" : "u") + std::to_string(bits);
  }

  std::string ty(Type *t)
  {
    auto it = tnames.find(t);
    if (it != tnames.end())
      return it->second;
    std::string n;
    if (t->isVoidTy())
      n = "void";
    else if (auto *it2 = dyn_cast<IntegerType>(t))
      n = ity(it2->getBitWidth());
    else if (t->isFloatTy())
      n = "float";
    else if (t->isDoubleTy())
      n = "double";
    else if (t->isX86_FP80Ty())
      n = "long double";
    else if (auto *pt = dyn_cast<PointerType>(t))
    {
      Type *e = pt->getPointerElementType();
      if (e->isVoidTy() || (e->isIntegerTy(8) && false))
        n = "void*";
      else
        n = ty(e) + "*";
    }
    else if (auto *st = dyn_cast<StructType>(t))
    {
      if (st->hasName())
      {
        std::string base = "struct s_" + sanitize(st->getName());
        n = base;
        unsigned k = 0;
        while (used_tnames.count(n))
          n = base + "_" + std::to_string(++k);
      }
      else
        n = "struct S_lit" + std::to_string(tcount++);
      used_tnames.insert(n);
      tnames[t] = n;
      std::string cmt = st->hasName() ? (" /* " + st->getName().str() + " */") : "";
      typedefs_fwd.push_back(n + ";" + cmt);
      return n;
    }
    else if (auto *at = dyn_cast<ArrayType>(t))
    {
      n = "struct A" + std::to_string(tcount++);
      tnames[t] = n;
      typedefs_fwd.push_back(n + ";");
      return n;
    }
    else if (auto *ft = dyn_cast<FunctionType>(t))
    {
      std::string name = "fn" + std::to_string(tcount++);
      tnames[t] = name;
      std::string s = "typedef " + ty(ft->getReturnType()) + " " + name + "(";
      for (unsigned i = 0; i < ft->getNumParams(); ++i)
        s += (i ? ", " : "") + ty(ft->getParamType(i));
      if (ft->isVarArg())
        s += ft->getNumParams() ? ", ..." : "";
      else if (ft->getNumParams() == 0)
        s += "void";
      s += ");";
      typedefs_fwd.push_back("/*fn*/" + s);
      return name;
    }
    else
    {
      std::string s;
      raw_string_ostream os(s);
      t->print(os);
      die("type " + os.str());
    }
    tnames[t] = n;
    return n;
  }

  // emit full definitions of aggregate types in dependency order
  void define(Type *t)
  {
    if (defined.count(t))
      return;
    if (auto *st = dyn_cast<StructType>(t))
    {
      if (st->isOpaque())
      {
        defined.insert(t);
        return;
      }
      if (inprogress.count(t))
        die("recursive by-value struct");
      inprogress.insert(t);
      for (Type *e : st->elements())
        define(e);
      std::string s = ty(t) + " {";
      unsigned i = 0;
      for (Type *e : st->elements())
        s += " " + ty(e) + " f" + std::to_string(i++) + ";";
      if (st->getNumElements() == 0)
        s += " char _empty;";
      s += " }";
      if (st->isPacked())
        s += " __attribute__((packed))";
      s += ";";
      typedefs_def.push_back(s);
      inprogress.erase(t);
      defined.insert(t);
    }
    else if (auto *at = dyn_cast<ArrayType>(t))
    {
      define(at->getElementType());
      uint64_t n = at->getNumElements();
      typedefs_def.push_back(ty(t) + " { " + ty(at->getElementType()) + " a[" + std::to_string(n ? n : 1) + "]; };");
      defined.insert(t);
    }
    else if (auto *ft = dyn_cast<FunctionType>(t))
    {
      defined.insert(t);
      ty(t);
    }
    else if (auto *pt = dyn_cast<PointerType>(t))
    {
      defined.insert(t);
      ty(t); // ensures forward decl
      // pointee only needs fwd decl, but walk it to register nested types
      Type *e = pt->getPointerElementType();
      if (!defined.count(e) && !inprogress.count(e))
        pending.push_back(e);
    }
    else
    {
      defined.insert(t);
      ty(t);
    }
  }
  std::vector<Type *> pending;
  void define_all(Type *t)
  {
    define(t);
    while (!pending.empty())
    {
      Type *p = pending.back();
      pending.pop_back();
      define(p);
    }
  }

  std::string gname(const GlobalValue *g)
  {
    auto it = gnames.find(g);
    if (it != gnames.end())
      return it->second;
    std::string n = sanitize(g->getName());
    if (n == "main")
      n = "cxx_main";
    while (used_gnames.count(n))
      n += "_";
    used_gnames.insert(n);
    gnames[g] = n;
    return n;
  }
};

struct FnEmitter
{
  Ctx &C;
  Function &F;
  std::ostringstream out;
  std::map<const Value *, std::string> names;
  std::set<std::string> used;
  std::map<const BasicBlock *, std::string> labels;
  unsigned tmpc = 0;
  int curline = -1;
  std::string curfile;
  FnEmitter(Ctx &c, Function &f) : C(c), F(f) {}

  std::string fresh(std::string base)
  {
    static const std::set<std::string> kw = {"auto", "break", "case", "char", "const", "continue", "default", "do", "double", "else", "enum", "extern", "float", "for", "goto", "if", "inline", "int", "long", "register", "restrict", "return", "short", "signed", "sizeof", "static", "struct", "switch", "typedef", "union", "unsigned", "void", "volatile", "while", "main", "u8", "u16", "u32", "u64", "u128", "i8", "i16", "i32", "i64", "i128"};
    std::string n = base;
    unsigned k = 0;
    while (used.count(n) || kw.count(n) || C.used_gnames.count(n))
      n = base + "_" + std::to_string(++k);
    used.insert(n);
    return n;
  }

  std::string cst(const Constant *c);
  std::string val(const Value *v)
  {
    if (auto *c = dyn_cast<Constant>(v))
    {
      if (auto *g = dyn_cast<GlobalValue>(c))
      {
        if (isa<Function>(g))
          return "(&" + C.gname(g) + ")";
        return "(&" + C.gname(g) + ")";
      }
      return cst(c);
    }
    auto it = names.find(v);
    if (it == names.end())
      die("unnamed value use");
    if (isa<AllocaInst>(v))
      return "(&" + it->second + ")";
    return it->second;
  }
  std::string sval(const Value *v, unsigned bits) { return "((" + C.ity(bits, true) + ")" + val(v) + ")"; }

  void line(const Instruction &I)
  {
    if (const DebugLoc &dl = I.getDebugLoc())
    {
      if (dl.getLine() == 0)
        return;
      auto *scope = cast<DIScope>(dl.getScope());
      std::string f = (scope->getDirectory() + "/" + scope->getFilename()).str();
      if (scope->getFilename().startswith("/"))
        f = scope->getFilename().str();
      if ((int)dl.getLine() != curline || f != curfile)
      {
        out << "#line " << dl.getLine() << " \"" << f << "\"\n";
        curline = dl.getLine();
        curfile = f;
      }
    }
  }

  std::string gep(const GEPOperator *G, std::function<std::string(const Value *)> V)
  {
    std::string e = V(G->getPointerOperand());
    Type *cur = G->getSourceElementType();
    bool first = true;
    for (auto it = G->idx_begin(); it != G->idx_end(); ++it)
    {
      const Value *idx = *it;
      std::string is;
      if (auto *ci = dyn_cast<ConstantInt>(idx))
        is = std::to_string(ci->getSExtValue());
      else
        is = "((i64)(" + C.ity(idx->getType()->getIntegerBitWidth(), true) + ")" + V(idx) + ")";
      if (first)
      {
        first = false;
        // pointer arithmetic on source element type
        std::string pt = C.ty(cur) + "*";
        if (is == "0")
          e = "(*(" + pt + ")" + e + ")";
        else
          e = "((" + pt + ")" + e + ")[" + is + "]";
        continue;
      }
      if (auto *st = dyn_cast<StructType>(cur))
      {
        unsigned k = cast<ConstantInt>(idx)->getZExtValue();
        e += ".f" + std::to_string(k);
        cur = st->getElementType(k);
      }
      else if (auto *at = dyn_cast<ArrayType>(cur))
      {
        e += ".a[" + is + "]";
        cur = at->getElementType();
      }
      else
        die("gep into non-aggregate");
    }
    return "(&" + e + ")";
  }

  void emit_phis(const BasicBlock *from, const BasicBlock *to, const std::string &ind)
  {
    std::vector<std::pair<std::string, std::string>> as;
    for (const PHINode &P : to->phis())
    {
      const Value *in = P.getIncomingValueForBlock(from);
      as.push_back({names[&P], val(in)});
    }
    if (as.size() == 1)
      out << ind << as[0].first << " = " << as[0].second << ";\n";
    else if (as.size() > 1)
    {
      // parallel copy through temporaries
      unsigned i = 0;
      for (const PHINode &P : to->phis())
      {
        out << ind << "{ " << C.ty(P.getType()) << " phi_tmp" << i << " = " << as[i].second << ";";
        ++i;
      }
      i = 0;
      for (auto &a : as)
        out << " " << a.first << " = phi_tmp" << i++ << ";";
      for (unsigned k = 0; k < as.size(); ++k)
        out << " }";
      out << "\n";
    }
  }
  std::map<const BasicBlock *, Loop *> sheaders; // structured loop headers
  void jump(const BasicBlock *from, const BasicBlock *to, const std::string &ind)
  {
    emit_phis(from, to, ind);
    auto it = sheaders.find(to);
    if (it != sheaders.end())
    {
      if (it->second->contains(from))
        out << ind << "goto " << labels[to] << "_continue;\n";
      else
        out << ind << "goto " << labels[to] << "_pre;\n";
      return;
    }
    out << ind << "goto " << labels[to] << ";\n";
  }

  void emit_inst(const Instruction &I);
  void emit_block(const BasicBlock &B)
  {
    out << labels[&B] << ": ;\n";
    for (const Instruction &I : B)
      emit_inst(I);
  }
  std::string run(const Contract *ct);
  std::string proto();
};

std::string FnEmitter::cst(const Constant *c)
{
  Type *t = c->getType();
  if (auto *ci = dyn_cast<ConstantInt>(c))
  {
    unsigned b = ci->getBitWidth();
    if (b == 1)
      return ci->isZero() ? "0" : "1";
    if (b <= 64)
      return "((" + C.ity(b) + ")" + std::to_string(ci->getZExtValue()) + "ull)";
    die("wide constant");
  }
  if (isa<ConstantPointerNull>(c))
    return "((" + C.ty(t) + ")0)";
  if (isa<UndefValue>(c))
  {
    if (t->isIntegerTy() || t->isPointerTy() || t->isFloatingPointTy())
      return "((" + C.ty(t) + ")0)";
    return "(" + C.ty(t) + "){0}";
  }
  if (auto *cf = dyn_cast<ConstantFP>(c))
  {
    SmallString<32> s;
    cf->getValueAPF().toString(s, 0, 0);
    std::string r = s.str().str();
    if (cf->getValueAPF().isInfinity() || cf->getValueAPF().isNaN())
      die("inf/nan constant");
    if (r.find('.') == std::string::npos && r.find('E') == std::string::npos && r.find('e') == std::string::npos)
      r += ".0";
    return "((" + C.ty(t) + ")" + r + ")";
  }
  if (isa<ConstantAggregateZero>(c))
    return "(" + C.ty(t) + "){0}";
  if (auto *ce = dyn_cast<ConstantExpr>(c))
  {
    switch (ce->getOpcode())
    {
    case Instruction::BitCast:
    case Instruction::AddrSpaceCast:
    case Instruction::IntToPtr:
    case Instruction::PtrToInt:
      return "((" + C.ty(t) + ")" + val(ce->getOperand(0)) + ")";
    case Instruction::GetElementPtr:
      return gep(cast<GEPOperator>(ce), [&](const Value *v) { return val(v); });
    default:
      die(std::string("constexpr ") + ce->getOpcodeName());
    }
  }
  if (auto *cs = dyn_cast<ConstantStruct>(c))
  {
    std::string s = "(" + C.ty(t) + "){";
    for (unsigned i = 0; i < cs->getNumOperands(); ++i)
      s += (i ? ", " : "") + val(cs->getOperand(i));
    return s + "}";
  }
  if (auto *ca = dyn_cast<ConstantArray>(c))
  {
    std::string s = "(" + C.ty(t) + "){{";
    for (unsigned i = 0; i < ca->getNumOperands(); ++i)
      s += (i ? ", " : "") + val(ca->getOperand(i));
    return s + "}}";
  }
  if (auto *cd = dyn_cast<ConstantDataSequential>(c))
  {
    std::string s = "(" + C.ty(t) + "){{";
    for (unsigned i = 0; i < cd->getNumElements(); ++i)
      s += (i ? ", " : "") + val(cd->getElementAsConstant(i));
    return s + "}}";
  }
  std::string s;
  raw_string_ostream os(s);
  c->print(os);
  die("constant " + os.str());
}

static std::string cstr_escape(const std::string &s)
{
  std::string r;
  for (char c : s)
  {
    if (c == '"' || c == '\\')
      r += '\\';
    if (c == '\n')
    {
      r += "\\n";
      continue;
    }
    r += c;
  }
  return r;
}

void FnEmitter::emit_inst(const Instruction &I)
{
  const std::string ind = "  ";
  if (isa<DbgInfoIntrinsic>(I) || isa<PHINode>(I) || isa<AllocaInst>(I))
    return;
  line(I);
  auto lhs = [&]() -> std::string {
    if (I.getType()->isVoidTy())
      return "";
    return names[&I] + " = ";
  };
  auto chk = [&](const std::string &cond, const std::string &msg) {
    out << ind << "__CPROVER_assert(" << cond << ", \"" << cstr_escape(msg) << "\");\n";
  };
  if (auto *BO = dyn_cast<BinaryOperator>(&I))
  {
    Type *t = BO->getType();
    std::string a = val(BO->getOperand(0)), b = val(BO->getOperand(1));
    if (t->isFloatingPointTy())
    {
      const char *op = nullptr;
      switch (BO->getOpcode())
      {
      case Instruction::FAdd: op = "+"; break;
      case Instruction::FSub: op = "-"; break;
      case Instruction::FMul: op = "*"; break;
      case Instruction::FDiv: op = "/"; break;
      default: die("fp binop");
      }
      out << ind << lhs() << a << " " << op << " " << b << ";\n";
      return;
    }
    unsigned w = t->getIntegerBitWidth();
    std::string U = C.ity(w), S = C.ity(w, true);
    std::string sa = "((" + S + ")" + a + ")", sb = "((" + S + ")" + b + ")";
    bool nsw = false, nuw = false;
    if (auto *ob = dyn_cast<OverflowingBinaryOperator>(BO))
    {
      nsw = ob->hasNoSignedWrap();
      nuw = ob->hasNoUnsignedWrap();
    }
    auto ovf = [&](const char *fn) {
      if (nsw)
        chk(std::string("!__CPROVER_overflow_") + fn + "(" + sa + ", " + sb + ")", std::string("UB: signed overflow in ") + BO->getOpcodeName());
      if (nuw)
        chk(std::string("!__CPROVER_overflow_") + fn + "(" + a + ", " + b + ")", std::string("UB: unsigned no-wrap violated in ") + BO->getOpcodeName());
    };
    std::string wmax = std::to_string(w);
    switch (BO->getOpcode())
    {
    case Instruction::Add: ovf("plus"); out << ind << lhs() << "(" << U << ")(" << a << " + " << b << ");\n"; break;
    case Instruction::Sub: ovf("minus"); out << ind << lhs() << "(" << U << ")(" << a << " - " << b << ");\n"; break;
    case Instruction::Mul:
      ovf("mult");
      if (C.ufmul && (w == 32 || w == 64) && !isa<ConstantInt>(BO->getOperand(0)) && !isa<ConstantInt>(BO->getOperand(1)))
        out << ind << lhs() << "VF_UFMUL" << w << "(" << a << ", " << b << ");\n"; // uninterpreted product: the proof holds for every binary function in place of *
      else
        out << ind << lhs() << "(" << U << ")(" << a << " * " << b << ");\n";
      break;
    case Instruction::UDiv: chk(b + " != 0", "UB: division by zero"); out << ind << lhs() << "(" << U << ")(" << a << " / " << b << ");\n"; break;
    case Instruction::URem: chk(b + " != 0", "UB: remainder by zero"); out << ind << lhs() << "(" << U << ")(" << a << " % " << b << ");\n"; break;
    case Instruction::SDiv:
      chk(b + " != 0", "UB: division by zero");
      chk("!(" + sb + " == -1 && " + a + " == ((" + U + ")1 << " + std::to_string(w - 1) + "))", "UB: signed division overflow");
      out << ind << lhs() << "(" << U << ")(" << sa << " / " << sb << ");\n";
      break;
    case Instruction::SRem:
      chk(b + " != 0", "UB: remainder by zero");
      chk("!(" + sb + " == -1 && " + a + " == ((" + U + ")1 << " + std::to_string(w - 1) + "))", "UB: signed remainder overflow");
      out << ind << lhs() << "(" << U << ")(" << sa << " % " << sb << ");\n";
      break;
    case Instruction::Shl:
      chk(b + " < " + wmax, "UB: shift distance too large in shl");
      if (nsw) chk("((" + S + ")(" + U + ")(" + a + " << " + b + ") >> " + b + ") == " + sa, "UB: signed overflow in shl");
      if (nuw) chk("((" + U + ")(" + a + " << " + b + ") >> " + b + ") == " + a, "UB: unsigned overflow in shl");
      out << ind << lhs() << "(" << U << ")(" << a << " << " << b << ");\n";
      break;
    case Instruction::LShr:
      chk(b + " < " + wmax, "UB: shift distance too large in lshr");
      out << ind << lhs() << "(" << U << ")(" << a << " >> " << b << ");\n";
      break;
    case Instruction::AShr:
      chk(b + " < " + wmax, "UB: shift distance too large in ashr");
      out << ind << lhs() << "(" << U << ")(" << sa << " >> " << b << ");\n";
      break;
    case Instruction::And: out << ind << lhs() << "(" << U << ")(" << a << " & " << b << ");\n"; break;
    case Instruction::Or: out << ind << lhs() << "(" << U << ")(" << a << " | " << b << ");\n"; break;
    case Instruction::Xor: out << ind << lhs() << "(" << U << ")(" << a << " ^ " << b << ");\n"; break;
    default: die("binop");
    }
    return;
  }
  if (auto *U = dyn_cast<UnaryOperator>(&I))
  {
    if (U->getOpcode() == Instruction::FNeg)
    {
      out << ind << lhs() << "-" << val(U->getOperand(0)) << ";\n";
      return;
    }
    die("unop");
  }
  if (auto *IC = dyn_cast<ICmpInst>(&I))
  {
    Type *ot = IC->getOperand(0)->getType();
    std::string a = val(IC->getOperand(0)), b = val(IC->getOperand(1));
    if (ot->isPointerTy())
    {
      // compare as same-typed pointers (void*)
      a = "((char*)" + a + ")";
      b = "((char*)" + b + ")";
    }
    else if (IC->isSigned())
    {
      unsigned w = ot->getIntegerBitWidth();
      a = sval(IC->getOperand(0), w);
      b = sval(IC->getOperand(1), w);
    }
    const char *op;
    switch (IC->getPredicate())
    {
    case CmpInst::ICMP_EQ: op = "=="; break;
    case CmpInst::ICMP_NE: op = "!="; break;
    case CmpInst::ICMP_UGT: case CmpInst::ICMP_SGT: op = ">"; break;
    case CmpInst::ICMP_UGE: case CmpInst::ICMP_SGE: op = ">="; break;
    case CmpInst::ICMP_ULT: case CmpInst::ICMP_SLT: op = "<"; break;
    case CmpInst::ICMP_ULE: case CmpInst::ICMP_SLE: op = "<="; break;
    default: die("icmp pred");
    }
    // Itanium C++ ABI 2.3: a pointer to a NON-virtual member function is the (even) function address, a pointer to a virtual one is
    // 1 + vtable offset. clang tests bit 0 of the value ("memptr.isvirtual"). The verifier cannot evaluate bit 0 of a function's
    // address, so the test is printed as: a value that IS the address of an object of the program (a function) is not virtual.
    if (IC->getName().startswith("memptr.isvirtual") && IC->getPredicate() == CmpInst::ICMP_NE)
      if (auto *AN = dyn_cast<BinaryOperator>(IC->getOperand(0)))
        if (AN->getOpcode() == Instruction::And)
        {
          out << ind << lhs() << "(__CPROVER_POINTER_OBJECT((void *)" << val(AN->getOperand(0)) << ") != 0 ? 0 : (" << a << " " << op << " " << b << "));\n";
          return;
        }
    out << ind << lhs() << "(" << a << " " << op << " " << b << ");\n";
    return;
  }
  if (auto *FC = dyn_cast<FCmpInst>(&I))
  {
    std::string a = val(FC->getOperand(0)), b = val(FC->getOperand(1));
    std::string e;
    auto un = "(" + a + " != " + a + " || " + b + " != " + b + ")";
    switch (FC->getPredicate())
    {
    case CmpInst::FCMP_OEQ: e = a + " == " + b; break;
    case CmpInst::FCMP_OGT: e = a + " > " + b; break;
    case CmpInst::FCMP_OGE: e = a + " >= " + b; break;
    case CmpInst::FCMP_OLT: e = a + " < " + b; break;
    case CmpInst::FCMP_OLE: e = a + " <= " + b; break;
    case CmpInst::FCMP_ONE: e = "!" + un + " && " + a + " != " + b; break;
    case CmpInst::FCMP_UNE: e = a + " != " + b; break;
    case CmpInst::FCMP_UNO: e = un; break;
    case CmpInst::FCMP_ORD: e = "!" + un; break;
    default: die("fcmp pred");
    }
    out << ind << lhs() << "(" << e << ");\n";
    return;
  }
  if (auto *L = dyn_cast<LoadInst>(&I))
  {
    out << ind << lhs() << "*" << val(L->getPointerOperand()) << ";\n";
    return;
  }
  if (auto *S = dyn_cast<StoreInst>(&I))
  {
    out << ind << "*" << val(S->getPointerOperand()) << " = " << val(S->getValueOperand()) << ";\n";
    return;
  }
  if (auto *G = dyn_cast<GetElementPtrInst>(&I))
  {
    out << ind << lhs() << gep(cast<GEPOperator>(G), [&](const Value *v) { return val(v); }) << ";\n";
    return;
  }
  if (auto *CI = dyn_cast<CastInst>(&I))
  {
    Type *st = CI->getSrcTy(), *dt = CI->getDestTy();
    std::string a = val(CI->getOperand(0));
    std::string D = C.ty(dt);
    switch (CI->getOpcode())
    {
    case Instruction::Trunc:
      if (dt->isIntegerTy(1))
        out << ind << lhs() << "(_Bool)(" << a << " & 1);\n";
      else
        out << ind << lhs() << "(" << D << ")" << a << ";\n";
      break;
    case Instruction::ZExt: out << ind << lhs() << "(" << D << ")" << a << ";\n"; break;
    case Instruction::SExt:
      if (st->isIntegerTy(1))
        out << ind << lhs() << "(" << D << ")(" << a << " ? -1 : 0);\n";
      else
        out << ind << lhs() << "(" << D << ")(" << C.ity(dt->getIntegerBitWidth(), true) << ")" << sval(CI->getOperand(0), st->getIntegerBitWidth()) << ";\n";
      break;
    case Instruction::BitCast:
      if (st->isPointerTy() && dt->isPointerTy())
        out << ind << lhs() << "(" << D << ")" << a << ";\n";
      else if (!st->isVectorTy() && !dt->isVectorTy() && C.DL.getTypeStoreSize(st) == C.DL.getTypeStoreSize(dt))
        out << ind << "{ " << C.ty(st) << " vf_bc = " << a << "; memcpy(&" << names[&I] << ", &vf_bc, sizeof vf_bc); }\n"; // same-size scalar reinterpretation (int <-> float)
      else
        die("non-pointer bitcast");
      break;
    case Instruction::PtrToInt:
    case Instruction::IntToPtr:
      out << ind << lhs() << "(" << D << ")" << a << ";\n";
      break;
    case Instruction::UIToFP: out << ind << lhs() << "(" << D << ")" << a << ";\n"; break;
    case Instruction::SIToFP: out << ind << lhs() << "(" << D << ")" << sval(CI->getOperand(0), st->getIntegerBitWidth()) << ";\n"; break;
    case Instruction::FPToUI: out << ind << lhs() << "(" << D << ")" << a << ";\n"; break;
    case Instruction::FPToSI: out << ind << lhs() << "(" << D << ")(" << C.ity(dt->getIntegerBitWidth(), true) << ")" << a << ";\n"; break;
    case Instruction::FPExt:
    case Instruction::FPTrunc: out << ind << lhs() << "(" << D << ")" << a << ";\n"; break;
    default: die(std::string("cast ") + CI->getOpcodeName());
    }
    return;
  }
  if (auto *SI = dyn_cast<SelectInst>(&I))
  {
    out << ind << lhs() << val(SI->getCondition()) << " ? " << val(SI->getTrueValue()) << " : " << val(SI->getFalseValue()) << ";\n";
    return;
  }
  if (auto *EV = dyn_cast<ExtractValueInst>(&I))
  {
    std::string e = val(EV->getAggregateOperand());
    Type *cur = EV->getAggregateOperand()->getType();
    for (unsigned k : EV->indices())
    {
      if (auto *st = dyn_cast<StructType>(cur))
      {
        e += ".f" + std::to_string(k);
        cur = st->getElementType(k);
      }
      else
      {
        e += ".a[" + std::to_string(k) + "]";
        cur = cast<ArrayType>(cur)->getElementType();
      }
    }
    out << ind << lhs() << e << ";\n";
    return;
  }
  if (auto *IV = dyn_cast<InsertValueInst>(&I))
  {
    out << ind << lhs() << val(IV->getAggregateOperand()) << ";\n";
    std::string e = names[&I];
    Type *cur = IV->getType();
    for (unsigned k : IV->indices())
    {
      if (auto *st = dyn_cast<StructType>(cur))
      {
        e += ".f" + std::to_string(k);
        cur = st->getElementType(k);
      }
      else
      {
        e += ".a[" + std::to_string(k) + "]";
        cur = cast<ArrayType>(cur)->getElementType();
      }
    }
    out << ind << e << " = " << val(IV->getInsertedValueOperand()) << ";\n";
    return;
  }
  if (auto *CB = dyn_cast<CallBase>(&I))
  {
    const Function *callee = CB->getCalledFunction();
    bool castcall = false;
    if (!callee)
    {
      // call through a constant bitcast of a function (e.g. allocator dtor called on a derived-class pointer): call it directly
      if (auto *f2 = dyn_cast<Function>(CB->getCalledOperand()->stripPointerCasts()))
        if (f2->arg_size() == CB->arg_size() && !f2->isVarArg() && !f2->isIntrinsic())
        {
          callee = f2;
          castcall = true;
        }
    }
    std::string cn = callee ? callee->getName().str() : "";
    if (callee && callee->isIntrinsic())
    {
      switch (callee->getIntrinsicID())
      {
      case Intrinsic::lifetime_start:
      case Intrinsic::lifetime_end:
      case Intrinsic::dbg_declare:
      case Intrinsic::dbg_value:
      case Intrinsic::dbg_label:
      case Intrinsic::assume:
      case Intrinsic::experimental_noalias_scope_decl:
        return;
      case Intrinsic::memcpy:
      case Intrinsic::memmove:
      case Intrinsic::memset:
      {
        bool csz = isa<ConstantInt>(CB->getArgOperand(2));
        const char *f = callee->getIntrinsicID() == Intrinsic::memcpy ? (csz ? "memcpy" : "vf_memmove") : callee->getIntrinsicID() == Intrinsic::memmove ? (csz ? "memmove" : "vf_memmove") : (csz ? "memset" : "vf_memset");
        out << ind << f << "((void*)" << val(CB->getArgOperand(0)) << ", ";
        if (callee->getIntrinsicID() == Intrinsic::memset)
          out << "(int)" << val(CB->getArgOperand(1));
        else
          out << "(const void*)" << val(CB->getArgOperand(1));
        out << ", (size_t)" << val(CB->getArgOperand(2)) << ");\n";
        return;
      }
      case Intrinsic::trap:
        out << ind << "__CPROVER_assert(0, \"trap reached\"); __CPROVER_assume(0);\n";
        return;
      case Intrinsic::eh_typeid_for:
      case Intrinsic::is_constant:
        out << ind << lhs() << "0;\n";
        return;
      case Intrinsic::expect:
        out << ind << lhs() << val(CB->getArgOperand(0)) << ";\n";
        return;
      case Intrinsic::abs:
      {
        unsigned w = I.getType()->getIntegerBitWidth();
        std::string a = sval(CB->getArgOperand(0), w);
        if (!cast<ConstantInt>(CB->getArgOperand(1))->isZero())
          out << ind << "__CPROVER_assert(" << val(CB->getArgOperand(0)) << " != ((" << C.ity(w) << ")1 << " << (w - 1) << "), \"UB: abs of minimum value\");\n";
        out << ind << lhs() << "(" << C.ity(w) << ")(" << a << " < 0 ? -" << a << " : " << a << ");\n";
        return;
      }
      case Intrinsic::fabs:
        out << ind << lhs() << "(" << val(CB->getArgOperand(0)) << " < 0 ? -" << val(CB->getArgOperand(0)) << " : " << val(CB->getArgOperand(0)) << ");\n";
        return;
      case Intrinsic::bswap:
      {
        unsigned w = I.getType()->getIntegerBitWidth();
        out << ind << lhs() << "__builtin_bswap" << w << "(" << val(CB->getArgOperand(0)) << ");\n";
        return;
      }
      case Intrinsic::uadd_with_overflow: case Intrinsic::usub_with_overflow: case Intrinsic::umul_with_overflow:
      case Intrinsic::sadd_with_overflow: case Intrinsic::ssub_with_overflow: case Intrinsic::smul_with_overflow:
      {
        auto id = callee->getIntrinsicID();
        bool sg = id == Intrinsic::sadd_with_overflow || id == Intrinsic::ssub_with_overflow || id == Intrinsic::smul_with_overflow;
        const char *fn = (id == Intrinsic::uadd_with_overflow || id == Intrinsic::sadd_with_overflow) ? "plus" : (id == Intrinsic::usub_with_overflow || id == Intrinsic::ssub_with_overflow) ? "minus" : "mult";
        const char *op = fn[0] == 'p' ? "+" : fn[1] == 'i' ? "-" : "*";
        unsigned w = CB->getArgOperand(0)->getType()->getIntegerBitWidth();
        std::string a = val(CB->getArgOperand(0)), b = val(CB->getArgOperand(1));
        std::string ca = sg ? sval(CB->getArgOperand(0), w) : a, cb = sg ? sval(CB->getArgOperand(1), w) : b;
        out << ind << names[&I] << ".f0 = (" << C.ity(w) << ")(" << a << " " << op << " " << b << ");\n";
        out << ind << names[&I] << ".f1 = __CPROVER_overflow_" << fn << "(" << ca << ", " << cb << ");\n";
        return;
      }
      case Intrinsic::ctlz: case Intrinsic::cttz:
      {
        unsigned w = I.getType()->getIntegerBitWidth();
        bool lz = callee->getIntrinsicID() == Intrinsic::ctlz;
        std::string a = val(CB->getArgOperand(0));
        if (!cast<ConstantInt>(CB->getArgOperand(1))->isZero())
          out << ind << "__CPROVER_assert(" << a << " != 0, \"UB: ctlz/cttz of zero\");\n";
        if (w != 32 && w != 64)
          die("ctlz/cttz width");
        const char *fn = lz ? (w == 32 ? "__builtin_clz" : "__builtin_clzl") : (w == 32 ? "__builtin_ctz" : "__builtin_ctzl");
        out << ind << lhs() << "(" << a << " == 0) ? (" << C.ity(w) << ")" << w << " : (" << C.ity(w) << ")" << fn << "(" << a << ");\n";
        return;
      }
      case Intrinsic::ctpop:
      {
        unsigned w = I.getType()->getIntegerBitWidth();
        if (w > 64)
          die("ctpop width");
        out << ind << lhs() << "(" << C.ity(w) << ")__builtin_popcountl((u64)" << val(CB->getArgOperand(0)) << ");\n";
        return;
      }
      case Intrinsic::stacksave:
        out << ind << lhs() << "((" << C.ty(I.getType()) << ")0);\n";
        return;
      case Intrinsic::stackrestore:
        return;
      case Intrinsic::umax: case Intrinsic::umin: case Intrinsic::smax: case Intrinsic::smin:
      {
        bool sg = callee->getIntrinsicID() == Intrinsic::smax || callee->getIntrinsicID() == Intrinsic::smin;
        bool mx = callee->getIntrinsicID() == Intrinsic::smax || callee->getIntrinsicID() == Intrinsic::umax;
        unsigned w = I.getType()->getIntegerBitWidth();
        std::string a = sg ? sval(CB->getArgOperand(0), w) : val(CB->getArgOperand(0));
        std::string b = sg ? sval(CB->getArgOperand(1), w) : val(CB->getArgOperand(1));
        out << ind << lhs() << "(" << a << (mx ? " > " : " < ") << b << ") ? " << val(CB->getArgOperand(0)) << " : " << val(CB->getArgOperand(1)) << ";\n";
        return;
      }
      default:
        die("intrinsic " + cn);
      }
    }
    // C++ runtime modelling
    if (cn == "__cxa_throw" || cn == "_ZSt9terminatev" || cn == "__cxa_rethrow" || cn == "__cxa_bad_cast" || cn == "abort" || cn == "__cxa_pure_virtual" || cn == "__clang_call_terminate" || cn.rfind("_ZSt", 0) == 0 && cn.find("__throw_") != std::string::npos)
    {
      out << ind << "__CPROVER_assert(0, \"exception or termination: " << cn << "\"); __CPROVER_assume(0);\n";
      return;
    }
    std::string callexpr;
    if (callee)
    {
      if (cn == "_Znwm" || cn == "_Znam" || cn == "__cxa_allocate_exception")
        callexpr = "vf_new";
      else if (cn == "_ZdlPv" || cn == "_ZdaPv" || cn == "_ZdlPvm" || cn == "_ZdaPvm" || cn == "__cxa_free_exception")
        callexpr = "vf_delete";
      else
        callexpr = C.gname(callee);
    }
    else
    {
      FunctionType *ft = CB->getFunctionType();
      callexpr = "((" + C.ty(ft) + "*)" + val(CB->getCalledOperand()) + ")";
    }
    std::string args;
    FunctionType *ft = castcall ? callee->getFunctionType() : CB->getFunctionType();
    for (unsigned i = 0; i < CB->arg_size(); ++i)
    {
      if (callexpr == "vf_delete" && i > 0)
        break;
      std::string a = val(CB->getArgOperand(i));
      if (i < ft->getNumParams())
        a = "(" + C.ty(ft->getParamType(i)) + ")" + a;
      args += (i ? ", " : "") + a;
    }
    if (castcall && !I.getType()->isVoidTy())
      out << ind << lhs() << "(" << C.ty(I.getType()) << ")" << callexpr << "(" << args << ");\n";
    else if (castcall)
      out << ind << callexpr << "(" << args << ");\n";
    else
      out << ind << lhs() << callexpr << "(" << args << ");\n";
    if (auto *IV = dyn_cast<InvokeInst>(&I))
      jump(I.getParent(), IV->getNormalDest(), ind);
    return;
  }
  if (auto *B = dyn_cast<BranchInst>(&I))
  {
    const BasicBlock *from = I.getParent();
    if (B->isUnconditional())
      jump(from, B->getSuccessor(0), ind);
    else
    {
      out << ind << "if (" << val(B->getCondition()) << ") {\n";
      jump(from, B->getSuccessor(0), ind + "  ");
      out << ind << "} else {\n";
      jump(from, B->getSuccessor(1), ind + "  ");
      out << ind << "}\n";
    }
    return;
  }
  if (auto *SW = dyn_cast<SwitchInst>(&I))
  {
    const BasicBlock *from = I.getParent();
    out << ind << "switch (" << val(SW->getCondition()) << ") {\n";
    for (auto &c : SW->cases())
    {
      out << ind << "case " << c.getCaseValue()->getZExtValue() << "ull: {\n";
      jump(from, c.getCaseSuccessor(), ind + "  ");
      out << ind << "}\n";
    }
    out << ind << "default: {\n";
    jump(from, SW->getDefaultDest(), ind + "  ");
    out << ind << "}\n" << ind << "}\n";
    return;
  }
  if (auto *R = dyn_cast<ReturnInst>(&I))
  {
    if (R->getReturnValue())
      out << ind << "return " << val(R->getReturnValue()) << ";\n";
    else
      out << ind << "return;\n";
    return;
  }
  if (isa<UnreachableInst>(I))
  {
    out << ind << "__CPROVER_assert(0, \"UB: unreachable reached\"); __CPROVER_assume(0);\n";
    return;
  }
  if (auto *FI = dyn_cast<FreezeInst>(&I))
  {
    out << ind << lhs() << val(FI->getOperand(0)) << ";\n";
    return;
  }
  if (isa<FenceInst>(I))
    return;
  if (auto *RMW = dyn_cast<AtomicRMWInst>(&I))
  {
    // sequential model of an atomic read-modify-write (no thread model, DESIGN 3.1 item 4)
    std::string p = val(RMW->getPointerOperand()), v = val(RMW->getValOperand());
    out << ind << lhs() << "*" << p << ";\n";
    const char *op = nullptr;
    switch (RMW->getOperation())
    {
    case AtomicRMWInst::Xchg: out << ind << "*" << p << " = " << v << ";\n"; return;
    case AtomicRMWInst::Add: op = "+"; break;
    case AtomicRMWInst::Sub: op = "-"; break;
    case AtomicRMWInst::And: op = "&"; break;
    case AtomicRMWInst::Or: op = "|"; break;
    case AtomicRMWInst::Xor: op = "^"; break;
    default: die("atomicrmw op");
    }
    out << ind << "*" << p << " = (" << C.ty(RMW->getType()) << ")(*" << p << " " << op << " " << v << ");\n";
    return;
  }
  if (auto *CX = dyn_cast<AtomicCmpXchgInst>(&I))
  {
    std::string p = val(CX->getPointerOperand());
    out << ind << names[&I] << ".f0 = *" << p << ";\n";
    out << ind << names[&I] << ".f1 = (" << names[&I] << ".f0 == " << val(CX->getCompareOperand()) << ");\n";
    out << ind << "if (" << names[&I] << ".f1) *" << p << " = " << val(CX->getNewValOperand()) << ";\n";
    return;
  }
  if (isa<LandingPadInst>(I) || isa<ResumeInst>(I))
  {
    // exception edges are never taken: throws are reported at the throw site
    out << ind << "__CPROVER_assume(0);\n";
    return;
  }
  die(std::string("instruction ") + I.getOpcodeName());
}

std::string FnEmitter::proto()
{
  std::string s = C.ty(F.getReturnType()) + " " + C.gname(&F) + "(";
  unsigned i = 0;
  for (Argument &A : F.args())
  {
    std::string n = A.hasName() ? sanitize(A.getName()) : ("arg" + std::to_string(i));
    n = fresh(n);
    names[&A] = n;
    s += (i ? ", " : "") + C.ty(A.getType()) + " " + n;
    ++i;
  }
  if (F.isVarArg())
    s += i ? ", ..." : "";
  else if (i == 0)
    s += "void";
  s += ")";
  return s;
}

std::string FnEmitter::run(const Contract *ct)
{
  std::ostringstream hdr;
  hdr << "/* " << demangle(F.getName().str()) << " */\n";
  hdr << proto() << "\n";
  if (ct)
    for (auto &c : ct->clauses)
      hdr << c << "\n";
  hdr << "{\n";
  // name everything
  unsigned bi = 0;
  for (BasicBlock &B : F)
  {
    labels[&B] = fresh("L" + std::to_string(bi++) + "_" + sanitize(B.getName()));
    for (Instruction &I : B)
    {
      if (auto *AI = dyn_cast<AllocaInst>(&I))
      {
        if (!isa<ConstantInt>(AI->getArraySize()) || !cast<ConstantInt>(AI->getArraySize())->isOne())
          die("dynamic alloca");
        std::string n = fresh(AI->hasName() ? sanitize(AI->getName()) : ("a" + std::to_string(tmpc++)));
        names[&I] = n;
        hdr << "  " << C.ty(AI->getAllocatedType()) << " " << n << ";\n";
      }
      else if (!I.getType()->isVoidTy())
      {
        if (isa<LandingPadInst>(I))
        {
          std::string n = fresh("lp" + std::to_string(tmpc++));
          names[&I] = n;
          hdr << "  " << C.ty(I.getType()) << " " << n << ";\n";
          continue;
        }
        std::string n = fresh(I.hasName() ? ("v_" + sanitize(I.getName())) : ("t" + std::to_string(tmpc++)));
        names[&I] = n;
        hdr << "  " << C.ty(I.getType()) << " " << n << ";\n";
      }
    }
  }
  // loops with contracts get structured emission
  DominatorTree DT(F);
  LoopInfo LI(DT);
  auto loops_sv = LI.getLoopsInPreorder(); std::vector<Loop *> loops(loops_sv.begin(), loops_sv.end());
  std::map<const Loop *, unsigned> lord;
  for (unsigned i = 0; i < loops.size(); ++i)
    lord[loops[i]] = i;

  std::set<const BasicBlock *> done;
  std::function<void(const BasicBlock *)> emitB;
  std::function<void(Loop *)> emitL = [&](Loop *L) {
    unsigned k = lord[L];
    const std::vector<std::string> *cl = nullptr;
    if (ct)
    {
      auto it = ct->loops.find(k);
      if (it != ct->loops.end())
        cl = &it->second;
    }
    BasicBlock *H = L->getHeader();
    // entry into the loop from outside: jumps target a pre-label placed before for(;;)
    out << "  /* loop " << k << " header " << H->getName().str() << " */\n";
    out << labels[H] << "_pre: ;\n";
    out << "  for(;;)\n";
    if (cl)
      for (auto &c : *cl)
        out << "  " << c << "\n";
    out << "  {\n";
    // blocks of this loop in function order, nested loops recursively
    for (BasicBlock &B : F)
    {
      if (!L->contains(&B) || done.count(&B))
        continue;
      Loop *inner = LI.getLoopFor(&B);
      if (inner != L)
      {
        // find the child loop of L containing B
        Loop *c = inner;
        while (c->getParentLoop() != L)
          c = c->getParentLoop();
        if (c->getHeader() != &B)
          die("loop block order: inner loop body before its header");
        emitL(c);
        continue;
      }
      done.insert(&B);
      emit_block(B);
    }
    out << labels[H] << "_continue: ;\n";
    out << "  }\n";
  };
  // For correctness of for(;;) structuring we need: the header is the first emitted
  // block of the loop, and back edges are `goto header-label` placed inside the body
  // (the label lives inside the for body, so the C-level back edge of for(;;) is
  // never taken; CBMC loop contracts need the real back edge). We therefore rewrite
  // jumps to the header from inside the loop into `continue`.
  bool any_contract_loops = ct && !ct->loops.empty();
  if (any_contract_loops)
    for (Loop *L : loops)
      sheaders[L->getHeader()] = L;
  if (!any_contract_loops)
  {
    for (BasicBlock &B : F)
      emit_block(B);
  }
  else
  {
    for (BasicBlock &B : F)
    {
      if (done.count(&B))
        continue;
      Loop *L = LI.getLoopFor(&B);
      if (L)
      {
        while (L->getParentLoop())
          L = L->getParentLoop();
        if (L->getHeader() != &B)
          die("loop block before header in function order");
        emitL(L);
        continue;
      }
      done.insert(&B);
      emit_block(B);
    }
  }
  return hdr.str() + out.str() + "}\n";
}

static void load_contracts(Ctx &C, const std::string &path)
{
  std::ifstream in(path);
  if (!in)
    die("cannot open contracts " + path);
  std::string l, cur;
  int curloop = -1;
  while (std::getline(in, l))
  {
    if (l.empty() || l[0] == '#')
      continue;
    if (l.rfind("function ", 0) == 0)
    {
      cur = l.substr(9);
      curloop = -1;
      C.contracts[cur];
      continue;
    }
    size_t p = l.find_first_not_of(" \t");
    std::string t = l.substr(p);
    if (t.rfind("loop ", 0) == 0)
    {
      curloop = std::stoi(t.substr(5));
      C.contracts[cur].loops[curloop];
      continue;
    }
    if (curloop >= 0)
      C.contracts[cur].loops[curloop].push_back(t);
    else
      C.contracts[cur].clauses.push_back(t);
  }
}

static std::string jesc(const std::string &s)
{
  std::string r;
  for (char c : s)
  {
    if (c == '"' || c == '\\')
      r += '\\';
    if (c == '\n')
    {
      r += "\\n";
      continue;
    }
    r += c;
  }
  return r;
}

int main(int argc, char **argv)
{
  std::string inpath, outpath, sympath, hdrpath;
  bool ufmul = false;
  std::vector<std::string> specs;
  for (int i = 1; i < argc; ++i)
  {
    std::string a = argv[i];
    if (a == "-spec" && i + 1 < argc)
      specs.push_back(argv[++i]);
    else if (a == "-o" && i + 1 < argc)
      outpath = argv[++i];
    else if (a == "-sym" && i + 1 < argc)
      sympath = argv[++i];
    else if (a == "-hdr" && i + 1 < argc)
      hdrpath = argv[++i];
    else if (a == "-ufmul")
      ufmul = true;
    else if (inpath.empty())
      inpath = a;
    else
    {
      errs() << "usage: ir2c in.ll [-spec f.spec]... [-o out.c] [-sym out.json]\n";
      return 2;
    }
  }
  if (inpath.empty())
  {
    errs() << "usage: ir2c in.ll [-spec f.spec]... [-o out.c] [-sym out.json]\n";
    return 2;
  }
  LLVMContext ctx;
  SMDiagnostic err;
  auto M = parseIRFile(inpath, err, ctx);
  if (!M)
  {
    err.print("ir2c", errs());
    return 2;
  }
  Ctx C(*M);
  C.ufmul = ufmul;
  for (auto &sp : specs)
    load_contracts(C, sp);
  std::ostringstream body, protos, globals, gfwd, sym, cleanprotos;
  // reserve global names first
  for (GlobalVariable &G : M->globals())
    C.gname(&G);
  for (Function &F : *M)
    C.gname(&F);
  std::set<std::string> matched;
  bool firstsym = true;
  sym << "{\"functions\":[\n";
  for (Function &F : *M)
  {
    if (F.isIntrinsic())
      continue;
    std::string dn = demangle(F.getName().str());
    const Contract *ct = nullptr;
    for (auto &kv : C.contracts)
      if (kv.first == dn || kv.first == F.getName().str())
      {
        if (ct)
          die("two contracts match one function: " + dn);
        ct = &kv.second;
        matched.insert(kv.first);
      }
    FnEmitter E(C, F);
    std::string n = F.getName().str();
    bool builtin = (n == "_Znwm" || n == "_Znam" || n == "_ZdlPv" || n == "_ZdaPv" || n == "_ZdlPvm" || n == "_ZdaPvm" || n == "memcpy" || n == "memmove" || n == "memset" || n == "__cxa_allocate_exception" || n == "__cxa_free_exception" || n == "__cxa_throw" || n == "abort" || n == "malloc" || n == "free" || n == "strlen" || n == "memcmp" || n == "memchr" || n == "abs" || n == "labs" || n == "llabs" || n == "strcmp" || n == "strncmp" || n == "fmod" || n == "fmodf" || n == "fmodl" || n == "fabs" || n == "fabsf" || n == "sqrt" || n == "sqrtf" || n == "wmemcpy" || n == "wmemmove" || n == "wmemset" || n == "wcslen" || n == "wmemcmp" || n == "wmemchr");
    // symbol record
    {
      FnEmitter P(C, F);
      P.proto();
      sym << (firstsym ? "" : ",\n") << " {\"name\":\"" << jesc(n) << "\",\"cname\":\"" << C.gname(&F) << "\",\"demangled\":\"" << jesc(dn) << "\",\"defined\":" << (F.isDeclaration() ? "false" : "true") << ",\"builtin\":" << (builtin ? "true" : "false") << ",\"ret\":\"" << C.ty(F.getReturnType()) << "\",\"params\":[";
      firstsym = false;
      unsigned k = 0;
      for (Argument &A : F.args())
      {
        bool sret = A.hasStructRetAttr();
        sym << (k ? "," : "") << "{\"type\":\"" << C.ty(A.getType()) << "\",\"name\":\"" << P.names[&A] << "\",\"sret\":" << (sret ? "true" : "false") << "}";
        ++k;
      }
      sym << "],\"contract\":" << (ct ? "true" : "false");
      unsigned nloops = 0;
      std::set<std::string> callees;
      if (!F.isDeclaration())
      {
        DominatorTree DT(F);
        LoopInfo LI(DT);
        nloops = LI.getLoopsInPreorder().size();
        for (BasicBlock &B : F)
          for (Instruction &I : B)
            if (auto *CB = dyn_cast<CallBase>(&I))
              if (const Function *cf = CB->getCalledFunction())
                if (!cf->isIntrinsic())
                  callees.insert(C.gname(cf));
      }
      sym << ",\"loops\":" << nloops << ",\"calls\":[";
      k = 0;
      for (auto &c : callees)
        sym << (k++ ? "," : "") << "\"" << c << "\"";
      sym << "]}";
    }
    if (F.isDeclaration())
    {
      if (builtin)
        continue;
      // trusted models of a few externals (listed in the evidence as trusted_base by the driver)
      {
        bool alloc_noop = n.rfind("_ZNSaI", 0) == 0 && (n.find("EC1E") != std::string::npos || n.find("EC2E") != std::string::npos || n.find("ED1E") != std::string::npos || n.find("ED2E") != std::string::npos) && n.size() <= 18;
        std::string mbody;
        if (alloc_noop)
          mbody = "{ }";
        else if (n == "__cxa_guard_acquire")
          mbody = "{ return *(u8*)" + std::string("@ARG0@") + " == 0; }";
        else if (n == "__cxa_guard_release")
          mbody = "{ *(u8*)" + std::string("@ARG0@") + " = 1; }";
        else if (n == "__cxa_guard_abort" || n == "__cxa_atexit" || n == "__cxa_end_catch")
          mbody = F.getReturnType()->isVoidTy() ? "{ }" : "{ return 0; }";
        if (!mbody.empty())
        {
          FnEmitter P2(C, F);
          std::string pr = P2.proto();
          protos << pr << ";\n";
          cleanprotos << pr << ";\n";
          std::string a0 = F.arg_size() ? P2.names[F.getArg(0)] : "";
          size_t pos;
          while ((pos = mbody.find("@ARG0@")) != std::string::npos)
            mbody.replace(pos, 6, a0);
          body << "/* trusted model of external " << dn << " */\n" << pr << " " << mbody << "\n";
          continue;
        }
      }
      {
        FnEmitter P3(C, F);
        cleanprotos << P3.proto() << ";\n";
      }
      {
        // stable type names for harness stubs of this external: <cname>_ret_t, <cname>_argK_t
        std::string cn2 = C.gname(&F);
        if (!F.getReturnType()->isVoidTy())
          protos << "typedef " << C.ty(F.getReturnType()) << " " << cn2 << "_ret_t;\n";
        unsigned k2 = 0;
        for (Argument &A : F.args())
          protos << "typedef " << C.ty(A.getType()) << " " << cn2 << "_arg" << k2++ << "_t;\n";
      }
      protos << "/* external: " << dn << " */\n" << E.proto();
      if (ct)
        for (auto &c : ct->clauses)
          protos << "\n" << c;
      protos << ";\n";
      continue;
    }
    if (ct)
    {
      DominatorTree DT(F);
      LoopInfo LI(DT);
      unsigned nl = LI.getLoopsInPreorder().size();
      for (auto &kv : ct->loops)
        if (kv.first >= nl)
        {
          if (nl == 0)
          { // the current code of this function has no loop at all: its loop contracts have nothing to attach to and are not needed
            errs() << "ir2c: note: loop contract of " << dn << " loop " << kv.first << " not applied: the function has no loop in the current code\n";
            continue;
          }
          die("loop contract for a loop ordinal that does not exist (must-fire): " + dn + " loop " + std::to_string(kv.first));
        }
    }
    std::string def = E.run(ct);
    FnEmitter P(C, F);
    protos << P.proto() << ";\n";
    cleanprotos << P.proto() << ";\n";
    body << def << "\n";
  }
  sym << "\n]}\n";
  for (auto &kv : C.contracts)
    if (!matched.count(kv.first))
      die("contract for unknown function (must-fire): " + kv.first);
  for (GlobalVariable &G : M->globals())
  {
    FnEmitter E(C, *M->begin());
    Type *vt = G.getValueType();
    C.define_all(vt);
    if (!G.hasInitializer())
    {
      globals << "extern " << C.ty(vt) << " " << C.gname(&G) << ";\n";
      continue;
    }
    gfwd << "extern " << (G.isConstant() ? "const " : "") << C.ty(vt) << " " << C.gname(&G) << ";\n";
    globals << (G.isConstant() ? "const " : "") << C.ty(vt) << " " << C.gname(&G);
    if (G.hasInitializer())
    {
      std::string init = E.cst(G.getInitializer());
      // strip compound literal cast for static initialisers
      std::string pre = "(" + C.ty(vt) + ")";
      if (init.rfind(pre, 0) == 0 && init.size() > pre.size() && init[pre.size()] == '{')
        init = init.substr(pre.size());
      globals << " = " << init;
    }
    globals << ";\n";
  }
  // make sure all types are defined
  std::vector<Type *> all;
  for (auto &kv : C.tnames)
    all.push_back(kv.first);
  for (Type *t : all)
    C.define_all(t);
  std::ostringstream o, th;
  o << "/* generated by ir2c from " << inpath << " */\n";
  o << "#include \"vf_rt.h\"\n";
  for (unsigned w : C.oddw)
  {
    th << "#ifndef VF_NATIVE\ntypedef unsigned __CPROVER_bitvector[" << w << "] u" << w << "; typedef signed __CPROVER_bitvector[" << w << "] i" << w << ";\n#else\n";
    const char *nt = w <= 8 ? "char" : w <= 16 ? "short" : w <= 32 ? "int" : "long";
    th << "typedef unsigned " << nt << " u" << w << "; typedef signed " << nt << " i" << w << "; /* native replay only: odd-width SROA temporaries never cross the shim ABI */\n#endif\n";
  }
  for (auto &s : C.typedefs_fwd)
    if (s.rfind("/*fn*/", 0) != 0)
      th << s << "\n";
  for (auto &s : C.typedefs_fwd)
    if (s.rfind("/*fn*/", 0) == 0)
      th << s.substr(6) << "\n";
  for (auto &s : C.typedefs_def)
    th << s << "\n";
  o << th.str();
  // function aliases (e.g. complete-object constructor C1 = base-object constructor C2): same code, second name
  for (GlobalAlias &GA : M->aliases())
    if (auto *af = dyn_cast<Function>(GA.getAliaseeObject()))
      o << "#define " << sanitize(GA.getName()) << " " << C.gname(af) << "\n";
  if (!hdrpath.empty())
  {
    std::ofstream f(hdrpath);
    f << "/* types and prototypes of the generated C (layout-identical to the C++ objects) */\n" << th.str() << cleanprotos.str();
  }
  o << protos.str() << "\n" << gfwd.str() << globals.str() << "\n" << body.str();
  if (outpath.empty())
    std::cout << o.str();
  else
  {
    std::ofstream f(outpath);
    f << o.str();
  }
  if (!sympath.empty())
  {
    std::ofstream f(sympath);
    f << sym.str();
  }
  return 0;
}
