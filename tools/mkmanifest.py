#!/usr/bin/env python3
"""Writes MANIFEST.json from the table below (kept in one place so the manifest stays valid)."""
import json, os
V = os.path.dirname(os.path.dirname(os.path.abspath(__file__)))
TECH = 'contract-based deductive verification: CBMC 6.11 code contracts (goto-instrument --dfcc --enforce-contract / --replace-call-with-contract / --apply-loop-contracts) on C printed mechanically from the clang -O0 LLVM IR of the real fcppt code, SAT + cvc5 + z3 back-end portfolio'
CLAIMED = {
    'C06': dict(category='proof',
                text='Every listed conversion/integer helper carries a function contract whose postcondition is the mathematical definition from the property (representable <=> has value, value == exact result), enforced by CBMC --dfcc over the full machine domain of every instantiation (64 truncation_check pairs, 20 from_int instantiations, 8 integer types for clamp/diff, 4 unsigned types for log2/next_power_of_2/is_power_of_2, 32/64 bit division helpers). Loops: next_power_of_2<unsigned> by loop invariant + decreases (unbounded), the other widths and log2 by width-bounded unwinding with unwinding assertions (complete). Every nsw/shift/division UB flag of the compiled code is an obligation.',
                note='Trusted: clang-14 front end, ir2c printer, CBMC and its solvers; contracts on extern "C" shims that only pack/unpack optional<T>; interval_distance not under contract. Machine integers are bit-vectors (no abstraction).'),
}
CLAIMED['C10'] = dict(category='proof',
    text='view(b) = set of enumerators whose bit is set (spec macro over the raw words, independent of the code), wf(b) = padding bits of the last word are clear. Every public operation (get/[]/& e, set/[]=, | e, |,&,^ and assigning forms incl. aliased operands, ~, ==, !=, is_subset_eq, null, initializer lists) carries a contract over the WHOLE view (finite conjunction over all N enumerators) plus wf, enforced by CBMC --dfcc for fully symbolic words; lemmas: init<bitfield>(f) for an uninterpreted f, equal sets hash/compare equal, composed identities through the real operators. Enum sizes 1,3,8,9,17 x word types u8..u64 (12 instantiations quick, all 20 thorough); word loops are compile-time bounded (<= 3 words) and unroll completely.',
    note='Trusted: clang-14 front end, ir2c, CBMC/solvers. (M) every bitfield reachable through the set-level API is wf by induction over its construction history (steps machine-checked). Not decided: stream output; raw array() access can create non-wf values by design.')
CLAIMED['C13'] = dict(category='proof',
    text='Boxes are passed as their corner scalars; a universally quantified point p (and, for minimality of the bounding box, a universally quantified box c) is a ghost parameter, so each contract holds for every point without a quantifier reaching the solver. Contracts (postconditions taken from the property): contains_point == membership; intersects (non-empty) == a common point exists; contains(outer, non-empty inner) == subset; intersection contains exactly the common points and is null for non-intersecting non-empty boxes; extend_bounding_box contains both and is contained in every box containing both; box(pos,size)/size()/max(), shrink, stretch_absolute, null, corner_points (all 2^N vertices in order). The closed forms COMMON/SUBSET used in the contracts are themselves proved equivalent to the point-set statements by witness lemmas. int and unsigned coordinates, N = 1,2,3, full 32-bit coordinate domain; all loop-free.',
    note='Trusted: clang-14 front end + opt inline/sroa/mem2reg, ir2c, CBMC/solvers. The null-box clause of intersection is required only for non-empty operands (an empty operand that lies inside the other box yields an empty, non-null box; the property characterises intersects only for non-empty boxes). Not decided: center, stretch_relative, structure_cast, distance, output.')
CLAIMED['C08'] = dict(category='proof',
    text='Contracts on the real grid helpers for N = 1,2,3 (unsigned coordinates, full 32-bit domain): offset == x + y*w + z*(w*h); in_range_dim; min_less_sup; range_dim; range_size and pos_range::size == product of the extents (0 for an empty range); end_position; next_position and pos_iterator++ == the row-major successor with carry inside [min,sup), equal to end() exactly after the last in-range position; make_pos_range; clamped_min/sup/sup_signed per component. Bijection: offset(0) == 0 and offset(next_position(p)) == offset(p) + 1 for every in-range p of the whole-grid range, proved for N = 1,2,3 with uninterpreted products plus instances of the ring lemmas DIST/COMM/ZERO/ONE, each of which is itself proved for 32-bit machine multiplication (cvc5/z3). pos_ref_iterator (real grid::object<int,N> iterator type over a static cell array): * refers to the cell at offset(pos,size), ++ moves to the successor, one step from every in-range state (bounded: extents <= 16/64).',
    note='(M) induction over the successor relation turns the step contracts into: the range visits every min <= p < sup exactly once in storage order, size() is the number visited, offset is a bijection onto [0, content). Products in the size contracts are uninterpreted (ufmul units): the proof holds for every binary operation in place of *. Not decided here: grid::object heap operations resize/map/apply/fill/at_optional on std::vector storage (std::vector code under a symbolic size did not close), interpolate, output.')
CLAIMED['C18'] = dict(category='proof',
    text='Contracts (full machine domain) on make_int_range / make_int_range_count / int_iterator for int8, uint8, int, unsigned, long and a strong typedef: begin == b, end == max(b,e), ++ is +1, == compares values, size() == number of elements whenever representable; enum ranges (make_range, make_range_start, make_range_start_end, enum iterator) incl. a real loop over the closed sub-range; moore/neumann neighbours (exactly the 8/4 positions). Bounded parts: cyclic_iterator on a static array (boundary lengths 1-8 and 64 at every offset, |d| <= 10^12): ++/-- are the +-1 steps with wrap, advance(d) lands inside the boundary at the position congruent to k+d; spiral range for Manhattan distance 0..3 (4 thorough) from a symbolic origin: every point within the distance exactly once, rings non-decreasing, origin first.',
    note='(M) induction over the iterator step gives the enumerated sequences. Spiral range and cyclic_iterator are bounded stand-ins (stated bounds), not proofs for all distances/lengths. Not decided: iterator::range, adapt_range, range::size.')
CLAIMED['C17'] = dict(category='proof',
    text='strong_typedef operators (+ - * & | ^ and assigning forms, unary - ~ ++ --, all six comparisons) over int, unsigned, long: each has the contract result.get() == the same operator on the underlying values, preconditions exclude exactly the UB cases of the underlying operator (products uninterpreted, so the operands are pinned). For optional, either, variant, tuple, array, strong_typedef, static vector/dim/matrix, box, sphere, reference: == has the contract "holds exactly when all observable components are equal", != is its negation; lemmas over three fully symbolic values: == is reflexive/symmetric/transitive, < is irreflexive, asymmetric, transitive, incomparability is transitive and coincides with ==, a == b implies hash(a) == hash(b). grid<int,2> ==, !=, < on std::vector storage as a bounded check (extents <= 2).',
    note='Not decided: tree, raw_vector, shared_ptr/unique_ptr, record, enum array, recursive, type_iso (heap or not built). bitfield == / hash coherence is proved under C10. Products are uninterpreted in the strong_typedef unit.')
CLAIMED['C12'] = dict(category='proof',
    text='The real parse::detail::stream<char> / <wchar_t> (through parse::get_char / get_position / set_position) over a ghost input stream whose text is an uninterpreted function of the offset (every text, every length): the constructor establishes location == (L(0),C(0)); get_char from ANY state satisfying the invariant (any offset, any eof/fail flags) returns text(off), advances the offset by one and re-establishes location == (L(off+1),C(off+1)), or returns nothing and leaves offset and location unchanged at end of input / on a failing stream; get_position returns (off, L(off), C(off)) and clears a pending eof; set_position(p) restores exactly p and get_position then returns p; a bad() stream throws the documented exception and yields no character. L/C are the line/column spec functions defined by their recurrences.',
    note='Assumed (trusted) contracts, as executable stubs: std::basic_istream::get/tellg/seekg and std::basic_ios::bad/eof/fail/clear (machine code in libstdc++). (M) induction over the interleaving of reads and restores. Not decided: message text formatting (iostream).')
CLAIMED['C20'] = dict(category='proof',
    text="The real distribution::basic, variate, parameters::uniform_int (plain, strong-typedef and enum result types), make_uniform_enum_advanced, make_uniform_indices_advanced, wrapper::uniform_container, make_uniform_container_advanced and generator::basic_pseudo are instantiated over an ABSTRACT wrapped distribution and engine (fcppt's own customisation point): every draw is an uninterpreted function of the draw index and the current parameters, with ghost counters for construction, copy, assignment, param(), reset(). Contracts: a distribution is constructed with exactly the given parameters; each draw calls the wrapped distribution exactly once with the caller's generator and returns that value re-wrapped; a variate yields the successive values of the wrapped pair; param(p) forwards to the wrapped param() without rebuilding the object; enum/index factories build the closed interval [0, size-1]; empty container => nothing; uniform_container returns the element at the drawn index (in-bounds access is an obligation); basic_pseudo forwards seed, min(), max() and draws (also checked on std::minstd_rand / mt19937 constants); the concrete std parameter types receive exactly (min,max) / (min,sup) / (mean,stddev).",
    note="Assumed: the std distributions and engines themselves (in-bounds and reaches-both-ends are properties of std::uniform_int_distribution given exactly the proved parameters). (M) parametricity of the templates in the wrapped distribution/engine. Not decided: members that do not instantiate (param() getter, operator()(rng, param)), stream operators.")
NA = {}
props = [json.loads(l) for l in open(os.path.join(V, 'properties.jsonl'))]
na_reasons = json.load(open(os.path.join(V, 'tools', 'not_applicable.json')))
checks = []
for p in props:
    pid = p['id']
    if pid in CLAIMED:
        c = CLAIMED[pid]
        checks.append({
            'property_id': pid,
            'quick_cmd': './check %s --tier quick' % pid,
            'thorough_cmd': './check %s --tier thorough' % pid,
            'evidence_file': 'evidence/%s.json' % pid,
            'replay_cmd_template': './check %s --replay {path}' % pid,
            'engine': 'vf-cbmc-contracts',
            'level_claimed': {'category': c['category'], 'text': c['text'], 'design_ref': 'DESIGN.md section 5 ' + pid},
            'level_note': c['note'],
            'technique': TECH,
        })
m = {
    'version': 1,
    'setup_cmd': 'sh tools/build.sh',
    'hooks': {'guard': 'FCPPT_VERIF', 'enable': 'no source hooks: contracts are sidecar files under /verif/props/*/ attached by ir2c to the C generated from /repo on every run; the shims are compiled with -DFCPPT_VERIF but no /repo file tests it',
              'baseline_off_cmd': 'cmake --build /repo/_build -j8 && ctest --test-dir /repo/_build -j8 --timeout 900',
              'source_commits': [], 'add_only': True},
    'engines': [{'name': 'vf-cbmc-contracts', 'path': 'vf/main.py', 'serves_properties': sorted(CLAIMED),
                 'kind_free_text': 'clang++-14 -O0 LLVM IR of the real code -> ir2c (C + sidecar __CPROVER contracts, UB obligations from nsw/nuw/shift/div flags) -> goto-cc -> goto-instrument --dfcc -> cbmc portfolio; native ASan/UBSan replay of counterexamples'}],
    'checks': checks,
    'notes': 'Genuine defects found and repaired are listed in known_findings.txt (fixed: lines) and DESIGN.md section 7. exit 2 = undecided (timeout / extraction abort), never reported as a violation.',
    'not_applicable': [{'property_id': p['id'], 'reason': na_reasons.get(p['id'], 'check not built yet in this session (see DESIGN.md section 5 for the planned contracts)')} for p in props if p['id'] not in CLAIMED],
}
json.dump(m, open(os.path.join(V, 'MANIFEST.json'), 'w'), indent=1)
print('claimed', sorted(CLAIMED), 'not_applicable', len(m['not_applicable']))
