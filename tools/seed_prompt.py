#!/usr/bin/env python3
"""usage: seed_prompt.py <PROPERTY> <k1> <k2>  - prints the prompt given to an independent sub-agent that seeds two changes (m<k1>, m<k2>) for a property.
The sub-agent gets ONLY the property text and its own scratch worktree /tmp/sw/<PROPERTY> (git -C /repo worktree add --detach /tmp/sw/<ID> HEAD), nothing from /verif.
Afterwards: tools/confirm_seed.sh <ID> <k>, tools/import_seed.py <ID> <k>, git -C /repo worktree remove --force /tmp/sw/<ID>, tools/seedtest.sh <ID>_m<k>."""
import json, sys
p, k1, k2 = sys.argv[1], sys.argv[2], sys.argv[3]
d = [json.loads(l) for l in open('/verif/properties.jsonl') if json.loads(l)['id'] == p][0]
prop = "TITLE: %s\n\nSTATEMENT: %s\n\nQUANTIFIER: %s\n\nANCHOR FILES:\n%s\n" % (d['title'], d['statement'], d['quantifier']['text'], "\n".join(d['anchors']['files']))
print(f"""You are testing how well a C++ library's quality gates resist subtle regressions. Work ONLY inside the scratch git worktree /tmp/sw/{p} (a checkout of the library freundlich/fcppt, a header-heavy C++20 toolkit). Do NOT read or touch /verif or /repo, and do not look at anything outside your worktree except system headers.

The library is supposed to satisfy this semantic property:

{prop}

TASK: produce TWO independent source changes (call them m{k1} and m{k2}) to the library sources under /tmp/sw/{p}/libs (headers or .cpp, not the tests), each of which
  (a) BREAKS the property above for some inputs,
  (b) still compiles and still passes the complete existing test suite,
  (c) looks like a plausible maintenance edit (refactoring, optimisation, 'simplification', bug fix gone wrong), not sabotage,
  (d) needs something SPECIFIC to manifest: an unusual input (boundary value, particular type instantiation, aliasing, empty/inverted/extreme argument), a multi-step sequence of operations, or two cooperating sites that each look fine alone - NOT something that ordinary use exposes at once. Both changes should touch DIFFERENT functions/areas named in the property, preferably ones the statement mentions explicitly.
For each change also write a small standalone demonstration program demo.cpp (C++20, uses only the library's public headers, returns 0 when the property holds for its inputs, non-zero/abort when it is violated) that PASSES on the unchanged tree and FAILS with the change.

HOW TO BUILD AND TEST (offline sandbox, no network):
  cmake -G Ninja -S /tmp/sw/{p} -B /tmp/sw/{p}/_build -DCMAKE_BUILD_TYPE=RelWithDebInfo -DCMAKE_CXX_FLAGS=-Wno-error -DENABLE_BOOST=ON -DENABLE_CATCH=ON -DENABLE_DOC=OFF -DENABLE_EXAMPLES=ON -DENABLE_TEST=ON
  cmake --build /tmp/sw/{p}/_build -j4        (first full build takes a while; the machine is shared)
  ctest --test-dir /tmp/sw/{p}/_build -j4 --timeout 900      (433 tests must pass)
  demo:  g++ -std=c++20 -O1 -I/tmp/sw/{p}/libs/core/include -I/tmp/sw/{p}/libs/parse/include -I/tmp/sw/{p}/libs/options/include -I/tmp/sw/{p}/libs/log/include -I/tmp/sw/{p}/libs/filesystem/include -I/tmp/sw/{p}/libs/boost/include -I/tmp/sw/{p}/_build/libs/core/include -I/tmp/sw/{p}/_build/include demo.cpp -o demo [-L/tmp/sw/{p}/_build/lib -lfcppt_core ... -Wl,-rpath,/tmp/sw/{p}/_build/lib if a compiled library is needed]
Build the unchanged tree once first (needed for generated headers), then for each change: apply it, rebuild (incremental), run the whole test suite, run the demo; then save and REVERT the change before working on the other one, so that each patch is independent and applies to the clean checkout.

DELIVERABLES (write them, then stop): for k in {k1},{k2} a directory /tmp/sw/out/{p}_m<k>/ containing
  patch.diff  - output of `git -C /tmp/sw/{p} diff` for that change alone (must apply with `git apply` to the clean checkout; library sources only)
  demo.cpp    - the demonstration, with the exact compile command in a comment at the top
  notes.txt   - what was changed, why it looks plausible, which sentence of the property it breaks, and exactly what is needed for it to manifest; and the test-suite result you observed (x/433 passed) with the change
Leave the worktree clean (no local modifications) at the end; do not delete the _build directory. Your final message should just summarise the two changes in a few lines.""")
