#!/bin/bash
# usage: [CHECK_ID=<other property>] seedtest.sh <seed dir name e.g. C10_m1> [check args]: apply the seeded change to /repo, run the property's quick check
# (or, with CHECK_ID, the check of another property that covers the same code), undo
S=$1; shift; ID=${CHECK_ID:-${S%%_*}}
exec 9>/tmp/seedtest.lock; flock 9
cd /repo || exit 9
git diff --quiet || { echo "/repo has local changes"; exit 9; }
git apply /verif/seeded/$S/patch.diff || { echo APPLY-FAILED; exit 8; }
cp /verif/evidence/$ID.json /tmp/seedtest_ev_$ID.json 2>/dev/null
(cd /verif && ./check $ID "$@" > /tmp/seedtest_$S.log 2>&1; echo "check_rc=$?" >> /tmp/seedtest_$S.log)
cp /tmp/seedtest_ev_$ID.json /verif/evidence/$ID.json 2>/dev/null   # evidence of a mutated tree is never kept
git checkout -- .
grep -E "^VIOLATION|check_rc|^\[$ID\]" /tmp/seedtest_$S.log | head -8
