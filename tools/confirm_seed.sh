#!/bin/bash
# usage: confirm_seed.sh <PROP> <k>   - confirm a sub-agent's change in its scratch worktree /tmp/sw/<PROP> (already built there):
# demo passes on the clean tree; patch applies; full build ok; ctest 433/433 with the patch; demo fails with the patch. Log: /tmp/sw/out/<PROP>_m<k>/confirm.log
P=$1; K=$2; W=/tmp/sw/$P; O=/tmp/sw/out/${P}_m$K; L=$O/confirm.log
: > $L
cd $W || exit 9
git diff --quiet || { echo "worktree not clean" | tee -a $L; exit 9; }
INC="-I$W/libs/core/include -I$W/libs/parse/include -I$W/libs/options/include -I$W/libs/log/include -I$W/libs/filesystem/include -I$W/libs/boost/include -I$W/_build/libs/core/include -I$W/_build/include"
LIBS="-L$W/_build/lib -Wl,-rpath,$W/_build/lib"
for l in fcppt_core fcppt_log fcppt_options fcppt_filesystem; do [ -e $W/_build/lib/lib$l.so ] && LIBS="$LIBS -l$l"; done
demo() { g++ -std=c++20 -O1 $INC $O/demo.cpp -o $O/demo.bin $LIBS >> $L 2>&1 || { echo "demo compile failed" >> $L; return 99; }; timeout 300 $O/demo.bin >> $L 2>&1; }
echo "== clean tree: build + demo" >> $L
cmake --build $W/_build -j6 >> $L 2>&1 || { echo "CLEAN BUILD FAILED" | tee -a $L; exit 1; }
demo; RC0=$?; echo "demo rc on clean tree: $RC0" | tee -a $L
git apply $O/patch.diff || { echo "PATCH DOES NOT APPLY" | tee -a $L; exit 1; }
echo "== patched: build + ctest + demo" >> $L
cmake --build $W/_build -j6 >> $L 2>&1; BRC=$?; echo "patched build rc: $BRC" | tee -a $L
ctest --test-dir $W/_build -j6 --timeout 900 2>&1 | tail -5 >> $L; grep -E "tests passed|tests failed" $L | tail -1
demo; RC1=$?; echo "demo rc with patch: $RC1" | tee -a $L
git checkout -- . ; git status --short | grep -v _build | head -3
cmake --build $W/_build -j6 >> $L 2>&1
if [ $RC0 = 0 ] && [ $BRC = 0 ] && [ $RC1 != 0 ] && [ $RC1 != 99 ] && grep -q "100% tests passed" $L; then echo CONFIRMED | tee -a $L; else echo NOT-CONFIRMED | tee -a $L; fi
