#!/bin/sh
# setup_cmd: build the IR->C generator from files on disk only (LLVM 14 dev libs are pre-installed)
set -e
cd "$(dirname "$0")/.."
mkdir -p bin build evidence replay
g++ -std=c++17 -O1 $(llvm-config-14 --cxxflags | sed 's/-std=c++14//;s/-fno-exceptions//') \
    tools/ir2c.cpp -o bin/ir2c $(llvm-config-14 --ldflags) -lLLVM-14
# z3-new under the name z3 for the extra SMT back end
mkdir -p bin/z3new && ln -sf "$(command -v z3-new)" bin/z3new/z3
echo "setup ok"
